"""C19: the checked-in generated trees are what the generator produces.

The domain is finite (the five template instantiations of the current working
tree) and is enumerated completely: the generator is run in a scratch copy, its
gofmt-ed output is compared byte for byte with the checked-in trees.go, as a
whole and per instantiation.
"""
import difflib, hashlib, json, os, re, shutil, subprocess, tempfile, time

NAMES = ["alphaLeafNode", "unsignedLeafNode", "signedLeafNode", "floatLeafNode", "compoundLeafNode"]


def split_sections(src):
    """Splits trees.go at the `type <leaf>[V any] struct` headers."""
    idx = [(m.start(), m.group(1)) for m in re.finditer(r"^type (\w+LeafNode)\[V any\] struct", src, re.M)]
    out = {"<header>": src[:idx[0][0]] if idx else src}
    for i, (pos, name) in enumerate(idx):
        end = idx[i + 1][0] if i + 1 < len(idx) else len(src)
        out[name] = src[pos:end]
    return out


def generate(drv, repo):
    tmp = tempfile.mkdtemp(prefix="verif-c19-")
    try:
        shutil.copytree(os.path.join(repo, "cmd"), os.path.join(tmp, "cmd"))
        for f in ("go.mod", "go.sum", "gen.go"):
            shutil.copy(os.path.join(repo, f), os.path.join(tmp, f))
        env = drv.go_env()
        p = subprocess.run([drv.GO, "run", "cmd/go-art/main.go"], cwd=tmp, env=env, stdout=subprocess.PIPE, stderr=subprocess.STDOUT, text=True, timeout=600)
        if p.returncode != 0 or not os.path.exists(os.path.join(tmp, "trees.go")):
            return None, "generator failed: " + p.stdout[-2000:]
        gofmt = os.path.join(os.path.dirname(drv.GO), "gofmt")
        if not os.path.exists(gofmt):
            gofmt = shutil.which("gofmt") or "gofmt"
        p = subprocess.run([gofmt, "-w", "trees.go"], cwd=tmp, env=env, stdout=subprocess.PIPE, stderr=subprocess.STDOUT, text=True, timeout=120)
        if p.returncode != 0:
            return None, "gofmt failed on the generator output: " + p.stdout[-2000:]
        p2 = subprocess.run([gofmt, "-l", os.path.join(repo, "trees.go")], env=env, stdout=subprocess.PIPE, stderr=subprocess.STDOUT, text=True, timeout=120)
        return (open(os.path.join(tmp, "trees.go")).read(), p2.stdout.strip()), None
    finally:
        shutil.rmtree(tmp, ignore_errors=True)


def compare(drv, repo):
    res, err = generate(drv, repo)
    if err:
        return None, err
    gen, unformatted = res
    cur = open(os.path.join(repo, "trees.go")).read()
    gs, cs = split_sections(gen), split_sections(cur)
    report = {"whole_file_identical": gen == cur, "gofmt_clean": unformatted == "", "sections": []}
    diffs = []
    for name in ["<header>"] + NAMES:
        g, c = gs.get(name), cs.get(name)
        same = g is not None and g == c
        report["sections"].append({"instantiation": name, "identical": same,
                                   "generated_sha256": hashlib.sha256((g or "").encode()).hexdigest()[:16],
                                   "checked_in_sha256": hashlib.sha256((c or "").encode()).hexdigest()[:16],
                                   "lines": (c or "").count("\n")})
        if not same:
            d = list(difflib.unified_diff((c or "").splitlines(), (g or "").splitlines(), "trees.go (checked in) [%s]" % name, "generator output [%s]" % name, lineterm="", n=2))
            diffs.append("\n".join(d[:80]))
    extra = sorted(set(cs) - set(gs) - {"<header>"}) + sorted(set(gs) - set(cs))
    if extra:
        diffs.append("instantiations present on one side only: %s" % extra)
    if gen != cur and not diffs:
        diffs.append("files differ outside the recognised sections")
    if unformatted:
        diffs.append("gofmt -l reports the checked-in trees.go as not formatted")
    return (report, diffs), None


def run(pid, tier, seed, spec, drv):
    t0 = time.time()
    res, err = compare(drv, drv.REPO)
    if err:
        print("INCONCLUSIVE property=%s %s" % (pid, err))
        return 2
    report, diffs = res
    n_dis = sum(1 for s in report["sections"] if not s["identical"])
    agg = {"evaluations": len(report["sections"]), "distinct_nontrivial": len(NAMES), "nontrivial": len(NAMES), "classes": {}, "kinds": {},
           "samples": report["sections"], "aborted_foreign_panic": 0, "fact_totals": {},
           "extra": {"programs": len(NAMES), "disagreements_checked": n_dis, "whole_file_identical": report["whole_file_identical"], "gofmt_clean": report["gofmt_clean"]},
           "exhaustive": {"five_template_instantiations": True},
           "rule": "the generator (go run cmd/go-art/main.go, then gofmt) is executed in a scratch copy of the current working tree and its output is compared byte for byte with the checked-in trees.go, as a whole and split per instantiation at the `type <leaf>[V any]` headers; the domain (5 instantiations + file header) is enumerated completely; every instantiation counts as one non-trivial program"}
    spec = dict(spec)
    spec["exhaustive_all"] = True
    drv.write_evidence(pid, tier, seed, spec, agg, time.time() - t0, 1 if diffs else 0, {"runs": []})
    if diffs:
        d = os.path.join(drv.VERIF, "replays", pid)
        os.makedirs(d, exist_ok=True)
        text = "\n\n".join(diffs)
        path = os.path.join(d, "%s-%s.diff" % (pid, hashlib.sha1(text.encode()).hexdigest()[:12]))
        open(path, "w").write(text + "\n")
        print("VIOLATION property=%s replay=%s" % (pid, path))
        print("  " + diffs[0].splitlines()[0][:300] if diffs[0] else "")
        for l in diffs[0].splitlines()[1:12]:
            print("  " + l[:200])
        return 1
    print("OK property=%s tier=%s programs=%d all identical, gofmt clean, wall=%.1fs" % (pid, tier, len(NAMES), time.time() - t0))
    return 0


def replay(path):
    import importlib, sys
    drv = sys.modules.get("__main__")
    res, err = compare(drv, drv.REPO)
    if err:
        print("INCONCLUSIVE property=C19 " + err)
        return 2
    _, diffs = res
    if diffs:
        print(diffs[0][:3000])
        print("VIOLATION property=C19 replay=%s" % path)
        return 1
    print("REPLAY-OK property=C19 (generator output and trees.go are identical)")
    return 0

"""Per-property run table for ./check (what is run in which tier)."""

ALL_KINDS_ASSUMPTIONS = [
    "oracle: map model + independent comparators written without go-art encoders (bytes.Compare, native integer order, float total order from IsNaN/Signbit/<, x/text CompareString on a separate collator instance, field-wise tuple order)",
    "inputs stay inside the property's domain; the two recorded known-finding classes (KF1, KF2) are excluded by construction and counted",
    "verdict = held on everything generated; no claim of absence",
]


def hist(test, qchecks, qsteps, tchecks, tsteps, shards=16, extra_quick=None, extra_thorough=None, **kw):
    d = {
        "kind": "hist",
        "quick": [{"test": test, "checks": qchecks, "steps": qsteps, "timeout": 600}] + (extra_quick or []),
        "thorough": [{"test": test, "checks": tchecks, "steps": tsteps, "shards": shards, "timeout": 3000}] + (extra_thorough or []),
        "assumptions": ALL_KINDS_ASSUMPTIONS,
    }
    d.update(kw)
    return d



def rule_of(pid):
    return None


CHECKS = {
    "C01": hist("TestC01", 6000, 40, 40000, 60,
                extra_thorough=[{"test": "TestC01", "variant": "386", "checks": 20000, "steps": 60, "shards": 2, "timeout": 3000}],
                kf_test="TestKF_C01",
                essential=["absent_proper_prefix_of_stored", "absent_shares_prefix_gt10", "reinsert_after_delete",
                           "has_node16", "has_node48", "has_node256", "lost_node48", "lost_node256", "inspath_pathsplit_long"]),
    "C02": hist("TestC02", 5000, 40, 30000, 60,
                extra_thorough=[{"test": "TestC02", "variant": "386", "checks": 15000, "steps": 60, "shards": 2, "timeout": 3000}],
                essential=["scan_ge3_after_delete", "has_node16", "has_node48", "has_node256", "lost_node48", "lost_node256"]),
    "C03": hist("TestC03", 6000, 40, 40000, 60,
                essential=["range_nontrivial", "range_bound_absent", "range_reversed", "range_bounds_lcp_gt10", "range_empty_tree"]),
    "C04": hist("TestC04", 6000, 40, 30000, 60,
                essential=["prefix_proper_subset", "prefix_no_match", "prefix_arg_gt10", "has_node16", "has_node48", "has_node256", "has_long_path"]),
    "C05": hist("TestC05", 4000, 40, 20000, 60,
                essential=["extreme_size_0", "extreme_size_1", "extreme_size_many", "k_zero", "k_gt_size", "has_node48", "has_node256"]),
    "C06": hist("TestC06", 5000, 40, 30000, 60,
                essential=["inspath_empty", "inspath_leafsplit", "inspath_pathsplit", "inspath_pathsplit_long", "inspath_childadd", "delete_absent"]),
    "C08": hist("TestC08", 5000, 40, 30000, 60,
                essential=["equal_primary_pair", "nondefault_collator", "delete_present", "has_long_path"]),
    "C09": hist("TestC09", 4000, 40, 25000, 60,
                essential=["multi_field", "same_first_field_pair", "range", "delete_present"]),
    "C11": hist("TestC11", 4000, 40, 15000, 60,
                essential=["inspath_pathsplit_long", "merge", "merge_crossing_inline_limit", "gained_node16", "gained_node48", "gained_node256",
                           "lost_node16", "lost_node48", "lost_node256"]),
    "C12": hist("TestC12", 1500, 60, 8000, 100,
                essential=["cross_tree_reuse_node4", "cross_tree_reuse_node16", "cross_tree_reuse_node48", "cross_tree_reuse_node256", "twin_created"]),
    "C13": hist("TestC13", 5000, 40, 25000, 60,
                essential=["arena_spare_calls", "range", "prefix"]),
    "C14": hist("TestC14", 5000, 40, 20000, 60,
                essential=["iter_nontrivial_all", "iter_nontrivial_backward", "iter_nontrivial_prefix", "iter_nontrivial_range",
                           "iter_nontrivial_topk", "iter_nontrivial_bottomk"]),
    "C15": hist("TestC15", 3000, 40, 12000, 60,
                essential=["bracketed_deep", "delete_absent", "overwrite"]),
}

# rule texts are kept next to the generators (harness/props.go); the driver copies them from the run statistics

"""Per-property run table for ./check (what is run in which tier)."""

ALL_KINDS_ASSUMPTIONS = [
    "oracle: map model + independent comparators written without go-art encoders (bytes.Compare, native integer order, float total order from IsNaN/Signbit/<, x/text CompareString on a separate collator instance, field-wise tuple order)",
    "inputs stay inside the property's domain; the two recorded known-finding classes (KF1, KF2) are excluded by construction and counted",
    "verdict = held on everything generated; no claim of absence",
]


def hist(test, qchecks, qsteps, tchecks, tsteps, shards=16, qshards=8, extra_quick=None, extra_thorough=None, **kw):
    d = {
        "kind": "hist",
        "quick": [{"test": test, "checks": qchecks, "steps": qsteps, "shards": qshards, "timeout": 600}] + (extra_quick or []),
        "thorough": [{"test": test, "checks": tchecks, "steps": tsteps, "shards": shards, "timeout": 3000}] + (extra_thorough or []),
        "assumptions": ALL_KINDS_ASSUMPTIONS,
    }
    d.update(kw)
    return d



def rule_of(pid):
    return None


CHECKS = {
    "C01": hist("TestC01", 6000, 40, 20000, 60,
                extra_quick=[{"test": "TestC01RuneProbes", "checks": 3000, "timeout": 600}, {"test": "TestHugeC01", "checks": 2, "timeout": 600}, {"test": "TestKeyLengthsC01", "checks": 3, "timeout": 600}, {"test": "TestScaleC01", "checks": 1, "shards": 4, "timeout": 600}, {"test": "TestC01", "variant": "386", "checks": 1500, "steps": 40, "timeout": 600}, {"test": "TestClosureC01", "timeout": 600}],
                extra_thorough=[{"test": "TestC01RuneProbes", "checks": 30000, "timeout": 1200}, {"test": "TestHugeC01", "checks": 12, "timeout": 1200}, {"test": "TestKeyLengthsC01", "checks": 12, "timeout": 1200}, {"test": "TestScaleC01", "checks": 3, "shards": 8, "timeout": 1800}, {"test": "TestC01", "variant": "386", "checks": 10000, "steps": 60, "shards": 2, "timeout": 3000}],
                kf_test="TestKF_C01",
                essential=["absent_proper_prefix_of_stored", "absent_shares_prefix_gt10", "reinsert_after_delete",
                           "has_node16", "has_node48", "has_node256", "lost_node48", "lost_node256", "inspath_pathsplit_long"]),
    "C02": hist("TestC02", 5000, 40, 15000, 60,
                extra_quick=[{"test": "TestScaleC02", "checks": 1, "shards": 4, "timeout": 600}, {"test": "TestC02", "variant": "386", "checks": 1500, "steps": 40, "timeout": 600}, {"test": "TestClosureC02", "timeout": 600}],
                extra_thorough=[{"test": "TestScaleC02", "checks": 3, "shards": 8, "timeout": 1800}, {"test": "TestC02", "variant": "386", "checks": 8000, "steps": 60, "shards": 2, "timeout": 3000}],
                essential=["scan_ge3_after_delete", "has_node16", "has_node48", "has_node256", "lost_node48", "lost_node256"]),
    "C03": hist("TestC03", 6000, 40, 20000, 60,
                extra_quick=[{"test": "TestHugeC03", "checks": 3, "timeout": 600}, {"test": "TestClosureC03", "timeout": 600}],
                extra_thorough=[{"test": "TestHugeC03", "checks": 12, "timeout": 1200}],
                essential=["range_nontrivial", "range_bound_absent", "range_reversed", "range_bounds_lcp_gt10", "range_empty_tree"]),
    "C04": hist("TestC04", 6000, 40, 15000, 60, kf_test="TestKF_C04",
                extra_quick=[{"test": "TestClosureC04", "timeout": 600}],
                essential=["prefix_proper_subset", "prefix_no_match", "prefix_arg_gt10", "has_node16", "has_node48", "has_node256", "has_long_path"]),
    "C05": hist("TestC05", 4000, 40, 12000, 60,
                extra_quick=[{"test": "TestScaleC05", "checks": 1, "shards": 4, "timeout": 600}, {"test": "TestClosureC05", "timeout": 600}],
                extra_thorough=[{"test": "TestScaleC05", "checks": 3, "shards": 8, "timeout": 1800}],
                essential=["extreme_size_0", "extreme_size_1", "extreme_size_many", "k_zero", "k_gt_size", "has_node48", "has_node256"]),
    "C06": hist("TestC06", 5000, 40, 15000, 60,
                extra_quick=[{"test": "TestScaleC06", "checks": 2, "shards": 8, "timeout": 600}, {"test": "TestClosureC06", "timeout": 600}],
                extra_thorough=[{"test": "TestScaleC06", "checks": 6, "shards": 16, "timeout": 1800}],
                essential=["inspath_empty", "inspath_leafsplit", "inspath_pathsplit", "inspath_pathsplit_long", "inspath_childadd", "delete_absent"]),
    "C08": hist("TestC08", 5000, 40, 15000, 60,
                extra_quick=[{"test": "TestKeyLengthsC08", "checks": 6, "timeout": 600}, {"test": "TestClosureC08", "timeout": 600}],
                extra_thorough=[{"test": "TestKeyLengthsC08", "checks": 24, "timeout": 1200}],
                essential=["equal_primary_pair", "nondefault_collator", "delete_present", "has_long_path"]),
    "C09": hist("TestC09", 3000, 40, 8000, 60,
                extra_quick=[{"test": "TestClosureC09", "timeout": 600}],
                essential=["multi_field", "same_first_field_pair", "range", "delete_present"]),
    "C11": hist("TestC11", 4000, 40, 8000, 60,
                extra_quick=[{"test": "TestC11Closure", "timeout": 600}],
                extra_thorough=[{"test": "TestC11Closure", "timeout": 1200},
                                {"test": "TestC11", "variant": "386", "checks": 8000, "steps": 60, "shards": 2, "timeout": 3000}],
                essential=["inspath_pathsplit_long", "merge", "merge_crossing_inline_limit", "gained_node16", "gained_node48", "gained_node256",
                           "lost_node16", "lost_node48", "lost_node256"]),
    "C12": hist("TestC12", 800, 60, 3000, 100,
                essential=["cross_tree_reuse_node4", "cross_tree_reuse_node16", "cross_tree_reuse_node48", "cross_tree_reuse_node256", "twin_created"]),
    "C13": hist("TestC13", 5000, 40, 12000, 60,
                essential=["arena_spare_calls", "range", "prefix"]),
    "C14": hist("TestC14", 2000, 40, 5000, 60,
                extra_quick=[{"test": "TestScaleC14", "checks": 2, "shards": 6, "timeout": 900}, {"test": "TestClosureC14", "timeout": 600}],
                extra_thorough=[{"test": "TestScaleC14", "checks": 3, "shards": 8, "timeout": 2400}],
                essential=["iter_nontrivial_all", "iter_nontrivial_backward", "iter_nontrivial_prefix", "iter_nontrivial_range",
                           "iter_nontrivial_topk", "iter_nontrivial_bottomk"]),
    "C15": hist("TestC15", 3000, 40, 6000, 60,
                extra_quick=[{"test": "TestClosureC15", "timeout": 600}],
                essential=["bracketed_deep", "delete_absent", "overwrite"]),
    "C07": {
        "kind": "go",
        "quick": [{"test": "TestC07", "checks": 1000, "shards": 16, "timeout": 600, "args": ["-verif.exhaustive32=f32"]},
                  {"test": "TestC07", "variant": "386", "checks": 1500, "timeout": 600}],
        "thorough": [{"test": "TestC07", "checks": 20000, "shards": 16, "timeout": 3000},
                     {"test": "TestC07", "variant": "386", "checks": 5000, "shards": 8, "timeout": 3000}],
        "essential": ["exhaustive_u8", "exhaustive_i8", "exhaustive_u16", "exhaustive_i16", "sweep_f64", "sweep_i64", "sweep_u64", "sweep_int", "sweep_uint",
                      "nan_patterns_f32", "nan_patterns_f64", "tuple"],
        "assumptions": ["oracle order = native Go comparison of the values (integers <; floats: IsNaN/Signbit/<), never a go-art function",
                        "the rank enumeration used to produce neighbouring values is itself validated against that oracle on every adjacent pair",
                        "64-bit types are sampled (boundary sweeps + generated pairs), not enumerated; the 8/16-bit types and float32 are enumerated completely in the quick tier, uint32/int32 in the thorough tier",
                        "GOARCH=386 run covers the 32-bit branches of the uint/int codecs"],
    },
    "C10": {
        "kind": "go",
        "quick": [{"test": "TestC10", "checks": 2000, "timeout": 600},
                  {"test": "TestC10", "variant": "386", "checks": 600, "timeout": 600}],
        "thorough": [{"test": "TestC10", "checks": 20000, "shards": 12, "timeout": 3000},
                     {"test": "TestC10", "variant": "386", "checks": 8000, "shards": 4, "timeout": 3000}],
        "essential": ["closure_transitions", "prim4_boundary_words", "prim16_stale_lane_equals_occupied", "prim16_fill_0", "prim16_fill_16",
                      "seq_end_node4", "seq_end_node16", "seq_end_node48", "seq_end_node256", "seq_branch_byte_00"],
        "assumptions": ["amd64 assembly (node16_amd64.s) and, through the GOARCH=386 run, the portable fallback node16_other.go are executed; node16_arm64.s cannot be executed in this sandbox and is NOT covered",
                        "nodes are driven through the build-tag-guarded bare node handle (addChild/deleteChild/findChild and the library's own all/backward/minimum/maximum on the node)",
                        "preconditions of the node API respected: add only an unregistered byte, remove only a registered byte"],
    },
    "C16": {
        "kind": "go", "replay_variant": "race", "maxpar": 4,
        "quick": [{"test": "TestC16", "variant": "race", "checks": 300, "timeout": 900, "env": {"GORACE": "halt_on_error=1"},
                   "wa_env": "VERIF_C16_WRITEAHEAD", "race_is_violation": True},
                  {"test": "TestC16Hammer", "variant": "plain", "checks": 8, "scale": 3, "timeout": 900},
                  {"test": "TestC16Hammer", "variant": "race", "checks": 2, "timeout": 900, "env": {"GORACE": "halt_on_error=1"}, "race_is_violation": True}],
        "thorough": [{"test": "TestC16Hammer", "variant": "plain", "checks": 20, "scale": 2, "shards": 2, "timeout": 2400},
                     {"test": "TestC16Hammer", "variant": "race", "checks": 4, "timeout": 2400, "env": {"GORACE": "halt_on_error=1"}, "race_is_violation": True},
                     {"test": "TestC16", "variant": "race", "checks": 3000, "shards": 4, "timeout": 3000, "env": {"GORACE": "halt_on_error=1"},
                      "wa_env": "VERIF_C16_WRITEAHEAD", "race_is_violation": True}],
        "essential": ["part_A", "part_B", "overlapped", "pool_traffic_on_2_goroutines", "gomaxprocs_1", "gomaxprocs_16"],
        "assumptions": ["schedules are sampled (GOMAXPROCS, Gosched injection, repetition), not enumerated; the verdict relies on the race detector's happens-before analysis, which only sees accesses that execute in the sampled run",
                        "the race detector has no false positives; any report is a violation",
                        "part B uses byte-string, numeric and compound trees only (collation trees write their codec scratch on every query and are outside the property)"],
    },
    "C17": {
        "kind": "go",
        "quick": [{"test": "TestC17", "checks": 32, "timeout": 600, "shrinktime": "5s"}],
        "thorough": [{"test": "TestC17", "checks": 15, "shards": 4, "timeout": 3000, "shrinktime": "10s"}],
        "essential": ["collation_x_q", "collation_x_s", "collation_x_i", "alpha_x_c", "unsigned_x_c", "signed_x_c", "float_x_c", "compound_x_c", "collation_x_c"],
        "assumptions": ["a measurement, not a proof of boundedness: live heap = runtime.MemStats.HeapAlloc after two forced collections",
                        "thresholds: total growth > 1 MiB over 8N operations with growth > 256 KiB in at least two of the intervals [0,N],[N,2N],[2N,4N],[4N,8N]; emptied tree retains <= 256 KiB",
                        "a measurement over the threshold is re-taken up to three times before it counts"],
    },
    "C18": hist("TestC18", 1200, 40, 5000, 60,
                essential=["valtype_int", "valtype_string", "valtype_ptr", "valtype_bytes", "valtype_big", "valtype_empty", "valtype_any", "gc_with_8", "range", "moved_value", "large_tree_gc"]),
}
CHECKS["C18"]["quick"].append({"test": "TestC18Large", "checks": 5, "timeout": 600, "shrinktime": "1s"})
CHECKS["C18"]["thorough"].append({"test": "TestC18Large", "checks": 6, "shards": 4, "timeout": 3000, "shrinktime": "1s"})
for _r in CHECKS["C18"]["quick"] + CHECKS["C18"]["thorough"]:
    _r["variant"] = "checkptr"
CHECKS["C18"]["thorough"].append({"test": "TestC18", "variant": "race", "checks": 1500, "steps": 40, "shards": 2, "timeout": 3000})
CHECKS["C18"]["replay_variant"] = "checkptr"
CHECKS["C18"]["assumptions"] = ALL_KINDS_ASSUMPTIONS + [
    "collector timing is forced (GC percent 1, runtime.GC() at drawn points, allocation churn), not enumerated",
    "binary built with -gcflags=all=-d=checkptr; a checkptr fault or runtime throw is a hard crash that the driver turns into a violation with a written-ahead trace",
    "the model holds value ids only (never the value objects), so the harness does not keep stored values alive"]
CHECKS["C19"] = {
    "kind": "script", "module": "c19", "level": "translation_validation",
    "assumptions": ["the generator is cmd/go-art/main.go + tree.tmpl of the current working tree followed by gofmt, as gen.go's go:generate lines say",
                    "differential check over a finite domain: no random generation is involved; the five instantiations are enumerated completely"],
}
for _pid in ("C01", "C02", "C03", "C04", "C05", "C06", "C08", "C09", "C14", "C15"):
    CHECKS[_pid]["thorough"].append({"test": "TestClosure" + _pid, "timeout": 900})
for _pid, _t, _ft in (("C01", "FuzzC01", "90s"), ("C02", "FuzzC02", "90s"), ("C11", "FuzzC11", "90s"), ("C03", "FuzzC03", "60s"), ("C04", "FuzzC04", "60s"),
                      ("C06", "FuzzC06", "60s"), ("C09", "FuzzC09", "60s"), ("C12", "FuzzC12", "60s"), ("C15", "FuzzC15", "60s")):
    CHECKS[_pid]["thorough"].append({"test": _t, "fuzz": True, "fuzztime": _ft, "timeout": 600, "steps": 60})

# rule texts are kept next to the generators (harness/props.go); the driver copies them from the run statistics

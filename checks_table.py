"""Per-property run table for ./check (what is run in which tier)."""

ALL_KINDS_ASSUMPTIONS = [
    "oracle: map model + independent comparators written without go-art encoders (bytes.Compare, native integer order, float total order from IsNaN/Signbit/<, x/text CompareString on a separate collator instance, field-wise tuple order)",
    "inputs stay inside the property's domain; the two recorded known-finding classes (KF1, KF2) are excluded by construction and counted",
    "verdict = held on everything generated; no claim of absence",
]


def hist(test, qchecks, qsteps, tchecks, tsteps, shards=16, extra_quick=None, extra_thorough=None, **kw):
    d = {
        "kind": "hist",
        "quick": [{"test": test, "checks": qchecks, "steps": qsteps, "timeout": 600}] + (extra_quick or []),
        "thorough": [{"test": test, "checks": tchecks, "steps": tsteps, "shards": shards, "timeout": 3000}] + (extra_thorough or []),
        "assumptions": ALL_KINDS_ASSUMPTIONS,
    }
    d.update(kw)
    return d


CHECKS = {
    "C01": hist("TestC01", 6000, 40, 40000, 60,
                extra_thorough=[{"test": "TestC01", "variant": "386", "checks": 20000, "steps": 60, "shards": 2, "timeout": 3000}],
                kf_test="TestKF_C01",
                essential=["absent_proper_prefix_of_stored", "absent_shares_prefix_gt10", "reinsert_after_delete",
                           "has_node16", "has_node48", "has_node256", "lost_node48", "lost_node256", "inspath_pathsplit_long"],
                rule="rapid state machine over all tree kinds and key-universe profiles; non-trivial = the history deletes a present key and later searches or re-inserts that same key, and probes (Search/Delete) an absent key that shares at least one leading byte with a stored key on a tree of >= 2 keys; distinct by hash of the concrete op trace"),
}

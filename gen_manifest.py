#!/usr/bin/env python3
"""Regenerates MANIFEST.json from checks_table.py and manifest_texts.py."""
import json, os, subprocess
from checks_table import CHECKS
from manifest_texts import TEXTS, NOT_APPLICABLE, NOTES

VERIF = os.path.dirname(os.path.abspath(__file__))

def hook_commits():
    try:
        out = subprocess.run(["git", "-C", "/repo", "log", "--format=%H %s"], capture_output=True, text=True).stdout
        return [l.split()[0] for l in out.splitlines() if "verif hook" in l][::-1]
    except Exception:
        return []

checks = []
for pid in sorted(CHECKS):
    if pid not in TEXTS:
        continue
    t = TEXTS[pid]
    c = {
        "property_id": pid,
        "quick_cmd": "./check %s quick" % pid,
        "thorough_cmd": "./check %s thorough" % pid,
        "evidence_file": "/verif/evidence/%s.json" % pid,
        "replay_cmd_template": "./check %s --replay {path}" % pid,
        "engine": t.get("engine", "rapid-history"),
        "level_claimed": {"category": CHECKS[pid].get("level", "exploration"), "text": t["level_text"], "design_ref": t["design_ref"]},
        "level_note": t["level_note"],
        "technique": t["technique"],
    }
    checks.append(c)

claimed = {c["property_id"] for c in checks}
na = [{"property_id": p, "reason": r} for p, r in sorted(NOT_APPLICABLE.items()) if p not in claimed]

manifest = {
    "version": 1,
    "setup_cmd": "./check --setup",
    "hooks": {
        "guard": "verif (Go build tag)",
        "enable": "go test -c -tags verif (the harness module replaces github.com/Clement-Jean/go-art with /repo, so every check compiles /repo's current working tree with /repo/verif_hooks.go included)",
        "baseline_off_cmd": "cd /repo && GOFLAGS=-mod=mod GOPROXY=off go test -json -vet=off -count=1 -timeout 25m ./...",
        "source_commits": hook_commits(),
        "add_only": True,
    },
    "engines": [
        {"name": "rapid-history", "path": "/verif/harness", "serves_properties": sorted(p for p in claimed if TEXTS[p].get("engine", "rapid-history") == "rapid-history"),
         "kind_free_text": "pgregory.net/rapid v1.3.0 state-machine generation of concrete op traces, interpreted on the real trees and on reference models; own trace minimiser; JSON replay without rapid"},
        {"name": "enumerative", "path": "/verif/harness", "serves_properties": sorted(p for p in claimed if TEXTS[p].get("engine") == "enumerative"),
         "kind_free_text": "exhaustive / sampled enumeration of finite domains (codec values, node states) plus rapid-generated pairs and sequences"},
        {"name": "script", "path": "/verif/c19.py", "serves_properties": sorted(p for p in claimed if TEXTS[p].get("engine") == "script"),
         "kind_free_text": "python driver-level differential checks"},
    ],
    "checks": checks,
    "not_applicable": na,
    "notes": NOTES,
}
json.dump(manifest, open(os.path.join(VERIF, "MANIFEST.json"), "w"), indent=1)
print("MANIFEST.json: %d checks, %d not_applicable" % (len(checks), len(na)))

package harness

// C01 on []rune-keyed collation trees, the part the byte-based raw form of the
// engine cannot express: probes containing rune values that are no Unicode scalar
// values (lone surrogates, values above U+10FFFF, negative values). Such a slice
// never equals a stored key built from text, so Search must report absent and
// Delete false, both returning normally, and the tree must stay as it is. (Keys of
// this sort are never *inserted*: the library stores strings, which cannot
// represent them - an implicit precondition of the key type.)

import (
	"encoding/binary"
	"fmt"
	"strings"
	"testing"

	art "github.com/Clement-Jean/go-art"
	"pgregory.net/rapid"
)

var invalidRunes = []rune{0xD800, 0xDBFF, 0xDC00, 0xDFFF, 0x110000, 0x7FFFFFFF, -1, -0x80000000}

func runes32(rs []rune) []byte {
	b := make([]byte, 4*len(rs))
	for i, r := range rs {
		binary.BigEndian.PutUint32(b[4*i:], uint32(r))
	}
	return b
}

func fromRunes32(b []byte) []rune {
	rs := make([]rune, len(b)/4)
	for i := range rs {
		rs[i] = rune(int32(binary.BigEndian.Uint32(b[4*i:])))
	}
	return rs
}

// replayRuneProbes runs a rune-probe history (ops: insert / search / delete with K = the runes
// as 4-byte big-endian values).
func replayRuneProbes(tr *Trace) error {
	t := art.NewCollationSortedTree[[]rune, int]()
	model := map[string]int{}
	for i, op := range tr.Ops {
		rs := fromRunes32(op.K)
		var perr string
		switch op.Op {
		case "insert":
			perr = call(func() { t.Insert(rs, op.V) })
			model[string(rs)] = op.V
		case "search":
			var ok bool
			perr = call(func() { _, ok = t.Search(rs) })
			if perr == "" && ok {
				return violf("op #%d: Search(%U) reports present, but the probe contains a rune that no stored key can contain", i+1, rs)
			}
		case "delete":
			var ok bool
			perr = call(func() { ok = t.Delete(rs) })
			if perr == "" && ok {
				return violf("op #%d: Delete(%U) reports that a key was removed, but the probe contains a rune that no stored key can contain", i+1, rs)
			}
		}
		if perr != "" {
			return violf("op #%d: %s(%U) did not return normally: %s", i+1, op.Op, rs, perr)
		}
		n := 0
		if p := call(func() { t.All()(func(k []rune, v int) bool { n++; return true }) }); p != "" {
			return ErrAbort
		}
		if n != len(model) || t.Size() != len(model) {
			return violf("op #%d: after %s(%U) the tree holds %d keys (Size %d), expected %d", i+1, op.Op, rs, n, t.Size(), len(model))
		}
	}
	return nil
}

func TestC01RuneProbes(t *testing.T) {
	stats.Property = "C01"
	stats.Rule = "[]rune-keyed collation tree: after inserts of valid text, Search and Delete are probed with rune slices containing non-scalar values (lone surrogates, values above U+10FFFF, negative values); they must return normally, report absent / false, and leave the tree unchanged; non-trivial = at least one stored key and one such probe; distinct by trace hash"
	rapid.Check(t, func(rt *rapid.T) {
		kind := MustKind("coll:und:runes")
		u := bytesUniverse(rt, kind, pick(rt, []string{"text", "text", "textfan", "deep"}, "profile"))
		tr := &Trace{Property: "C01", Kinds: []string{"coll:und:runes"}, Params: map[string]string{"mode": "runeprobes"}}
		var stored [][]rune
		eng := NewEngine(&Config{ExcludeKF: true}, []Kind{kind})
		probes := 0
		for i, n := 0, drawInt(rt, 2, 30, "nops"); i < n; i++ {
			if len(stored) == 0 || drawInt(rt, 0, 2, "act") == 0 {
				k := u.draw(rt)
				if !validRunes(k) || strings.ContainsRune(string(k), 0xFFFD) || eng.kfConflict(eng.slots[0], k) != "" {
					continue
				}
				eng.slots[0].model.Put(k, i)
				rs := []rune(string(k))
				stored = append(stored, rs)
				tr.Ops = append(tr.Ops, Op{Op: "insert", K: runes32(rs), V: i + 1})
				continue
			}
			base := append([]rune(nil), stored[drawInt(rt, 0, len(stored)-1, "base")]...)
			bad := pick(rt, invalidRunes, "bad")
			switch pos := drawInt(rt, 0, len(base), "pos"); {
			case pos < len(base) && drawInt(rt, 0, 1, "repl") == 0:
				base[pos] = bad
			default:
				base = append(base[:pos], append([]rune{bad}, base[pos:]...)...)
			}
			if drawInt(rt, 0, 3, "only") == 0 {
				base = []rune{bad}
			}
			tr.Ops = append(tr.Ops, Op{Op: pick(rt, []string{"search", "search", "delete"}, "probe"), K: runes32(base)})
			probes++
		}
		err := replayRuneProbes(tr)
		stats.AddCase(probes > 0 && len(stored) > 0, tr.Hash(), []string{"rune_probes"}, func() any {
			return map[string]any{"kind": "coll:und:runes", "mode": "probes with non-scalar rune values", "n_ops": len(tr.Ops), "probes": probes}
		})
		if err != nil && err != ErrAbort {
			tr.Failure = err.Error()
			failures.addOther(tr)
			rt.Fatalf("C01: %v", err)
		}
	})
}

var _ = fmt.Sprintf

package harness

// C07: numeric key encodings are order isomorphisms with exact round trip.
//
// Oracle: native comparison of the values (integers: <; floats: the total order
// NaN < -Inf < ... < -0 < +0 < ... < +Inf built from IsNaN / Signbit / <) against
// bytes.Compare of the encodings; decode(encode(x)) bit-identical to x.
// Generators: exhaustive walks of whole types in value order (8/16-bit quick,
// 32-bit thorough), consecutive-value sweeps around boundaries, rapid pairs,
// rapid tuples.

import (
	"bytes"
	"flag"
	"fmt"
	"math"
	"strconv"
	"strings"
	"testing"

	"pgregory.net/rapid"
)

// rank <-> bits: an enumeration of each type's values in ascending order, used
// only to *generate* neighbouring values; the verdict always comes from the
// native comparison (valueCompare), which also validates the enumeration.
func rankToBits(f *numKind, r uint64) uint64 {
	w := uint(f.width)
	sign := uint64(1) << (w - 1)
	mask := ^uint64(0) >> (64 - w)
	switch f.class {
	case 'u':
		return r & mask
	case 'i':
		return canonBits('i', f.width, (r^sign)&mask)
	}
	// floats: ranks 0..sign-1 are the negatives from the most negative pattern to -0,
	// ranks sign.. are +0 upwards
	if r&sign != 0 {
		return r &^ sign & mask
	}
	return (sign | (sign - 1 - r)) & mask
}

func bitsToRank(f *numKind, b uint64) uint64 {
	w := uint(f.width)
	sign := uint64(1) << (w - 1)
	mask := ^uint64(0) >> (64 - w)
	b &= mask
	switch f.class {
	case 'u':
		return b
	case 'i':
		return b ^ sign
	}
	if b&sign == 0 {
		return b | sign
	}
	return sign - 1 - (b &^ sign)
}

func floatOf(f *numKind, bits uint64) float64 {
	if f.width == 32 {
		return float64(math.Float32frombits(uint32(bits)))
	}
	return math.Float64frombits(bits)
}

func isNaNBits(f *numKind, bits uint64) bool { return f.class == 'f' && math.IsNaN(floatOf(f, bits)) }

// valueCompare is the oracle order on canonical bits.
func valueCompare(f *numKind, x, y uint64) int {
	if f.class == 'f' {
		return floatCompare(floatOf(f, x), floatOf(f, y))
	}
	return numCompare(f.class, canonBits(f.class, f.width, x), canonBits(f.class, f.width, y), 0, 0)
}

type codecFailure struct {
	typ  string
	x, y uint64
	msg  string
}

func (c *codecFailure) Error() string { return c.msg }

// checkOne verifies length, round trip and NaN canonicalisation for one value.
func checkOne(f *numKind, x uint64) (enc []byte, err error) {
	x = canonBits(f.class, f.width, x)
	enc = encodeField(f, x)
	if len(enc) != f.width/8 {
		return enc, &codecFailure{f.name, x, x, fmt.Sprintf("%s: encode(%s) has %d bytes, expected %d", f.name, f.Show(rawOf(x)), len(enc), f.width/8)}
	}
	back := decodeField(f, enc)
	if isNaNBits(f, x) {
		if !isNaNBits(f, back) {
			return enc, &codecFailure{f.name, x, x, fmt.Sprintf("%s: decode(encode(NaN %#x)) = %#x is not NaN", f.name, x, back)}
		}
		canon := encodeField(f, uint64(math.Float64bits(math.NaN())))
		if f.width == 32 {
			canon = encodeField(f, uint64(math.Float32bits(float32(math.NaN()))))
		}
		if !bytes.Equal(enc, canon) {
			return enc, &codecFailure{f.name, x, x, fmt.Sprintf("%s: NaN %#x encodes as %x, another NaN as %x", f.name, x, enc, canon)}
		}
		return enc, nil
	}
	if canonBits(f.class, f.width, back) != x {
		return enc, &codecFailure{f.name, x, x, fmt.Sprintf("%s: decode(encode(%s)) = %s (bits %#x -> %x -> %#x)", f.name, f.Show(rawOf(x)), f.Show(rawOf(back)), x, enc, back)}
	}
	return enc, nil
}

// checkPair verifies both values and that the encodings order like the values.
func checkPair(f *numKind, x, y uint64) error {
	ex, err := checkOne(f, x)
	if err != nil {
		return err
	}
	ey, err := checkOne(f, y)
	if err != nil {
		return err
	}
	want := valueCompare(f, x, y)
	got := sign(bytes.Compare(ex, ey))
	if want != got {
		return &codecFailure{f.name, x, y, fmt.Sprintf("%s: %s vs %s compare %d by value but their encodings %x vs %x compare %d", f.name, f.Show(rawOf(x)), f.Show(rawOf(y)), want, ex, ey, got)}
	}
	return nil
}

func failCodec(t interface{ Fatalf(string, ...any) }, err error) {
	cf := err.(*codecFailure)
	tr := &Trace{Property: "C07", Kinds: []string{cf.typ}, Failure: cf.msg,
		Params: map[string]string{"x": strconv.FormatUint(cf.x, 16), "y": strconv.FormatUint(cf.y, 16)}}
	failures.addOther(tr)
	t.Fatalf("C07: %s", cf.msg)
}

// walkRanks checks every adjacent pair of ranks in [lo, hi] (inclusive).
func walkRanks(f *numKind, lo, hi uint64) (n int, err error) {
	prevBits := rankToBits(f, lo)
	prevEnc, err := checkOne(f, prevBits)
	if err != nil {
		return 0, err
	}
	n = 1
	for r := lo; r != hi; {
		r++
		b := rankToBits(f, r)
		if isNaNBits(f, b) {
			continue // NaN patterns are outside the rank walk (handled separately)
		}
		enc, err := checkOne(f, b)
		if err != nil {
			return n, err
		}
		if valueCompare(f, prevBits, b) >= 0 {
			return n, fmt.Errorf("INTERNAL: enumeration not ascending at %s rank %d", f.name, r)
		}
		if bytes.Compare(prevEnc, enc) >= 0 {
			return n, &codecFailure{f.name, prevBits, b, fmt.Sprintf("%s: %s < %s but encodings %x >= %x", f.name, f.Show(rawOf(prevBits)), f.Show(rawOf(b)), prevEnc, enc)}
		}
		prevBits, prevEnc = b, enc
		n++
	}
	return n, nil
}

// nanWalk checks all NaN patterns of a 32-bit float type in [lo,hi) of the mantissa space (both signs).
func nanPatterns(f *numKind, fn func(bits uint64) error, stride uint64) (int, error) {
	n := 0
	if f.width == 32 {
		for m := uint64(1); m < 1<<23; m += stride {
			for _, s := range []uint64{0, 1 << 31} {
				if err := fn(s | 0x7f800000 | m); err != nil {
					return n, err
				}
				n++
			}
		}
		return n, nil
	}
	for m := uint64(1); m < 1<<52; m += stride {
		for _, s := range []uint64{0, 1 << 63} {
			if err := fn(s | 0x7ff0000000000000 | m); err != nil {
				return n, err
			}
			n++
		}
	}
	return n, nil
}

func rankRange(f *numKind) (lo, hi uint64) {
	w := uint(f.width)
	hi = ^uint64(0) >> (64 - w)
	if f.class == 'f' {
		// from -Inf to +Inf; ranks beyond are NaN patterns
		return bitsToRank(f, uint64(1)<<(w-1)|expMask(f)), bitsToRank(f, expMask(f))
	}
	return 0, hi
}

func expMask(f *numKind) uint64 {
	if f.width == 32 {
		return 0x7f800000
	}
	return 0x7ff0000000000000
}

var flagExh32 = flag.String("verif.exhaustive32", "", "comma-separated 32-bit types walked exhaustively also in the quick tier")

func TestC07(t *testing.T) {
	stats.Property = "C07"
	replayRegressions(t, "C07")
	stats.Rule = "exhaustive walks in value order of every value of the 8/16-bit types and of float32 (quick, float32 sharded over 16 processes) and of uint32/int32/float32 (thorough, sharded), consecutive-value sweeps of 2^16 (quick) / 2^20 (thorough) values around every boundary of the 32/64-bit types, all NaN patterns (sampled for float64), rapid-generated pairs biased to boundaries/neighbours/sign flips, and rapid-generated 2..4-field tuples; " +
		"each adjacent pair / generated pair is checked for fixed length, bit-exact round trip and sign(bytes.Compare(enc x, enc y)) == sign(native compare x,y); non-trivial = a pair with x != y (every adjacent pair of a walk is one); distinct by value pair"
	thorough := *flagTier == "thorough"
	shard, shards := uint64(*flagShard), uint64(max(1, *flagShards))

	report := func(err error) {
		if err == nil {
			return
		}
		if _, ok := err.(*codecFailure); ok {
			failCodec(t, err)
		}
		t.Fatalf("%v", err)
	}

	// (a) exhaustive walks
	for _, name := range allNumKindNames {
		f := numKinds[name]
		lo, hi := rankRange(f)
		switch {
		case f.width <= 16 && shard == 0:
			n, err := walkRanks(f, lo, hi)
			report(err)
			stats.AddBulk(n, n-1, "exhaustive_"+name)
			stats.Exhaustive[name] = true
		case f.width == 32 && (thorough || strings.Contains(","+*flagExh32+",", ","+name+",")):
			span := (hi - lo + 1 + shards - 1) / shards
			a := lo + shard*span
			b := min(hi, a+span) // overlap by one so that every adjacent pair is covered
			if a <= hi {
				n, err := walkRanks(f, a, b)
				report(err)
				stats.AddBulk(n, n-1, "exhaustive_"+name)
			}
			stats.Exhaustive[name] = true
		}
	}
	// NaN patterns
	for _, name := range []string{"f32", "f64"} {
		f := numKinds[name]
		stride := uint64(1)
		if name == "f32" && !thorough {
			stride = 257
		}
		if name == "f64" {
			stride = (1 << 52) / (1 << 16) * 3 / 2
			if thorough {
				stride = (1<<52)/(1<<20)*3/2 + 1
			}
		}
		if shard != 0 {
			continue
		}
		n, err := nanPatterns(f, func(b uint64) error { _, e := checkOne(f, b); return e }, stride)
		report(err)
		stats.AddBulk(n, n, "nan_patterns_"+name)
		if name == "f32" && stride == 1 {
			stats.Exhaustive["f32_nan_patterns"] = true
		}
	}

	// (b) consecutive-value sweeps around boundaries of the wide types
	half := uint64(1) << 15
	if thorough {
		half = 1 << 19
	}
	for _, name := range allNumKindNames {
		f := numKinds[name]
		if f.width < 32 || (f.width == 32 && (thorough || strings.Contains(","+*flagExh32+",", ","+name+","))) {
			continue
		}
		lo, hi := rankRange(f)
		bs := numBoundaries(f)
		for i, b := range bs {
			if uint64(i)%shards != shard || isNaNBits(f, canonBits(f.class, f.width, b)) {
				continue
			}
			r := bitsToRank(f, canonBits(f.class, f.width, b))
			a, z := r-half, r+half
			if r-lo < half {
				a = lo
			}
			if hi-r < half {
				z = hi
			}
			n, err := walkRanks(f, a, z)
			report(err)
			stats.AddBulk(n, n-1, "sweep_"+name)
		}
	}

	// (b') the source dictionary: every literal of the library's sources, and what one or two bit
	// operations make of it, as a value of every type, with its neighbours in value order
	if loadDict(); shard == 0 {
		stats.Extra["source_dictionary_literals"] = len(dictVals)
		stats.Extra["source_dictionary_files"] = dictFiles
		for _, name := range allNumKindNames {
			f := numKinds[name]
			lo, hi := rankRange(f)
			n := 0
			for _, c := range dictVals {
				for _, v := range dictDerived(c, f.width) {
					x := canonBits(f.class, f.width, v)
					if isNaNBits(f, x) {
						_, err := checkOne(f, x)
						report(err)
						continue
					}
					r := bitsToRank(f, x)
					a, z := r, r
					if r > lo {
						a = r - 1
					}
					if r < hi {
						z = r + 1
					}
					m, err := walkRanks(f, a, z)
					report(err)
					n += m
				}
			}
			stats.AddBulk(n, n, "dictionary_"+name)
		}
	}

	// (c) rapid pairs and tuples
	rapid.Check(t, func(rt *rapid.T) {
		f := numKinds[pick(rt, allNumKindNames, "type")]
		drawVal := func(label string) uint64 {
			switch weighted(rt, []int{4, 3, 3}, label+"src") {
			case 0:
				return canonBits(f.class, f.width, pick(rt, numBoundaries(f), label+"b"))
			case 1:
				return canonBits(f.class, f.width, rapid.Uint64().Draw(rt, label+"r"))
			}
			// structured: sign, exponent-ish top bits and low bits drawn separately
			w := uint(f.width)
			top := uint64(drawInt(rt, 0, 0xfff, label+"top")) << (w - 12 + 0) >> 0
			if w < 12 {
				top = uint64(drawInt(rt, 0, 0xff, label+"top8"))
			}
			low := uint64(drawInt(rt, 0, 3, label+"low"))
			return canonBits(f.class, f.width, top|low)
		}
		lo, hi := rankRange(f)
		for i := 0; i < 24; i++ {
			x := drawVal("x")
			var y uint64
			switch weighted(rt, []int{3, 3, 2, 1, 1}, "ysrc") {
			case 0:
				y = drawVal("y")
			case 1: // neighbour in value order
				if isNaNBits(f, x) {
					y = drawVal("y")
				} else {
					r := bitsToRank(f, x)
					d := uint64(drawInt(rt, 1, 3, "d"))
					if drawInt(rt, 0, 1, "dir") == 0 && hi-r >= d {
						r += d
					} else if r-lo >= d {
						r -= d
					}
					y = rankToBits(f, r)
				}
			case 2: // same magnitude, other sign
				y = canonBits(f.class, f.width, x^(uint64(1)<<uint(f.width-1)))
			case 3: // one byte changed
				y = canonBits(f.class, f.width, x^(uint64(drawInt(rt, 1, 255, "bx"))<<uint(8*drawInt(rt, 0, f.width/8-1, "bp"))))
			default:
				y = x
			}
			if err := checkPair(f, x, y); err != nil {
				failCodec(rt, err)
			}
			nt := canonBits(f.class, f.width, x) != canonBits(f.class, f.width, y)
			stats.AddCase(nt, hashPair(f.name, x, y), []string{"pair_" + f.name}, func() any {
				return map[string]any{"type": f.name, "x": f.Show(rawOf(x)), "y": f.Show(rawOf(y)),
					"enc_x": fmt.Sprintf("%x", encodeField(f, x)), "enc_y": fmt.Sprintf("%x", encodeField(f, y))}
			})
		}

		// tuples: the concatenation of field encodings orders like the tuple
		k := drawCompoundKind(rt).(*compoundKind)
		k.hasStr = false
		for len(k.fields) < 2 { // tuples of numeric fields only, at least two of them
			k.fields = append(k.fields, numKinds[pick(rt, allNumKindNames[:4], "extrafield")])
		}
		mk := func(label string) []byte {
			var raw []byte
			for _, fl := range k.fields {
				var v uint64
				if drawInt(rt, 0, 2, label+"same") == 0 {
					v = canonBits(fl.class, fl.width, pick(rt, numBoundaries(fl), label+"fb"))
				} else {
					v = canonBits(fl.class, fl.width, uint64(drawInt(rt, 0, 3, label+"fs")))
				}
				raw = append(raw, rawOf(v)...)
			}
			return raw
		}
		a, b := mk("ta"), mk("tb")
		_, ea := tupleCodec{k}.Transform(k.toTuple(a))
		_, eb := tupleCodec{k}.Transform(k.toTuple(b))
		want, got := sign(k.Compare(a, b)), sign(bytes.Compare(ea, eb))
		if want != got {
			msg := fmt.Sprintf("%s: tuples %s vs %s compare %d field by field but their concatenated encodings %x vs %x compare %d", k.Name(), k.Show(a), k.Show(b), want, ea, eb, got)
			failures.addOther(&Trace{Property: "C07", Kinds: []string{k.Name()}, Failure: msg,
				Params: map[string]string{"a": fmt.Sprintf("%x", a), "b": fmt.Sprintf("%x", b)}})
			rt.Fatalf("C07: %s", msg)
		}
		back := k.fromTuple(tupleCodec{k}.Restore(ea))
		if !k.SameKey(back, a) {
			msg := fmt.Sprintf("%s: tuple %s decodes as %s", k.Name(), k.Show(a), k.Show(back))
			failures.addOther(&Trace{Property: "C07", Kinds: []string{k.Name()}, Failure: msg,
				Params: map[string]string{"a": fmt.Sprintf("%x", a), "b": fmt.Sprintf("%x", a)}})
			rt.Fatalf("C07: %s", msg)
		}
		stats.AddCase(want != 0, hashPair(k.Name(), uint64(len(a)), bitsOf(a)^bitsOf(b[len(b)-8:])), []string{"tuple"}, nil)
	})
}

func hashPair(name string, x, y uint64) uint64 {
	h := uint64(14695981039346656037)
	for _, c := range []byte(name) {
		h = (h ^ uint64(c)) * 1099511628211
	}
	h = (h ^ x) * 1099511628211
	h = (h ^ (y + 0x9e3779b97f4a7c15)) * 1099511628211
	return h ^ h>>29
}

func init() {
	customReplays["C07"] = func(tr *Trace) error {
		k, err := ParseKind(tr.Kinds[0])
		if err != nil {
			return err
		}
		if ck, ok := k.(*compoundKind); ok {
			var a, b []byte
			fmt.Sscanf(tr.Params["a"], "%x", &a)
			fmt.Sscanf(tr.Params["b"], "%x", &b)
			_, ea := tupleCodec{ck}.Transform(ck.toTuple(a))
			_, eb := tupleCodec{ck}.Transform(ck.toTuple(b))
			if sign(ck.Compare(a, b)) != sign(bytes.Compare(ea, eb)) {
				return fmt.Errorf("tuple order and encoding order disagree for %s vs %s", ck.Show(a), ck.Show(b))
			}
			if !ck.SameKey(ck.fromTuple(tupleCodec{ck}.Restore(ea)), a) {
				return fmt.Errorf("tuple %s does not round-trip", ck.Show(a))
			}
			return nil
		}
		f := k.(*numKind)
		x, _ := strconv.ParseUint(tr.Params["x"], 16, 64)
		y, _ := strconv.ParseUint(tr.Params["y"], 16, 64)
		return checkPair(f, x, y)
	}
}

package harness

// C08 (and C01) on long collation keys: the sort keys' lengths are swept, byte by
// byte, across the sizes at which buffers are sized or grown (2^8 ... 2^14; x/text's
// own buffer starts at 4096 bytes). A key is 'a' repeated n times followed by m Han
// characters: five sort-key bytes per 'a', seven per Han character, so five
// consecutive m reach every residue. A second group takes the byte length of the
// original string across 2^16 and the sort-key length across 2^15 and 2^16. Every key is inserted, looked up, and the scans
// must be in the collator's order with the original strings.

import (
	"strconv"
	"strings"
	"testing"

	"pgregory.net/rapid"
)

func keyLengthOps(window int) []Op {
	var ops []Op
	v := 0
	for _, centre := range []int{256, 512, 1024, 2048, 4096, 8192, 16384} {
		n0 := (centre - 4) / 5
		for n := n0 - window; n <= n0+window; n++ {
			for m := 0; m <= 4; m++ {
				if n-m < 1 {
					continue
				}
				v++
				ops = append(ops, Op{Op: "insert", K: []byte(strings.Repeat("a", n-m) + strings.Repeat("漢", m)), V: v})
				ops = append(ops, Op{Op: "search", K: []byte(strings.Repeat("a", n-m) + strings.Repeat("漢", m))})
				if v%40 == 0 {
					ops = append(ops, Op{Op: "scan"}, Op{Op: "extremes"})
				}
			}
		}
	}
	// the byte length of the original string across 2^16 (a length field of the leaf
	// may be narrower than the sort key's), and the sort-key length across 2^15 and 2^16
	for _, c := range []struct{ centre, per int }{{65536, 1}, {(32768 - 4) / 5, 1}, {(65536 - 4) / 5, 1}} {
		for n := c.centre - 2; n <= c.centre+2; n++ {
			for m := 0; m <= 2; m++ {
				v++
				k := []byte(strings.Repeat("a", n-3*m) + strings.Repeat("漢", m))
				ops = append(ops, Op{Op: "insert", K: k, V: v}, Op{Op: "search", K: k})
			}
		}
		ops = append(ops, Op{Op: "scan"}, Op{Op: "extremes"})
	}
	return append(ops, Op{Op: "scan"}, Op{Op: "sweep"}, Op{Op: "extremes"}, Op{Op: "sizecheck"})
}

func replayKeyLengths(tr *Trace) error {
	spec := specByID(tr.Property)
	kind, err := ParseKind(tr.Kinds[0])
	if err != nil {
		return err
	}
	window, _ := strconv.Atoi(tr.Params["window"])
	cfg := spec.Cfg
	cfg.AuditEvery, cfg.AuditOps = 0, nil
	cfg.Bracket, cfg.Twin, cfg.Census, cfg.NoClassify, cfg.ExcludeKF = false, false, false, true, false
	eng := NewEngine(&cfg, []Kind{kind})
	seen := map[int]bool{}
	for i, op := range keyLengthOps(window) {
		if op.Op == "insert" {
			seen[len(kind.(*collKind).SortKey(op.K))] = true
		}
		if err := eng.Apply(op); err != nil {
			if err == ErrAbort {
				return nil
			}
			if v, ok := err.(*Violation); ok {
				v.Msg = "key-length sweep, op #" + strconv.Itoa(i+1) + ": " + v.Msg
			}
			return err
		}
	}
	stats.mu.Lock()
	stats.Extra["sort_key_lengths_covered_"+tr.Kinds[0]] = len(seen)
	stats.mu.Unlock()
	return nil
}

func runKeyLengths(t *testing.T, id string) {
	stats.Property = id
	stats.Rule = "sort-key length sweep: collation keys ('a' repeated n times plus 0..4 Han characters) whose sort-key lengths cover every value in windows around 2^8 .. 2^14, plus keys whose original byte length crosses 2^16 and whose sort-key length crosses 2^15 and 2^16, are inserted and looked up, with ordered scans, extremes and a final sweep against the model; non-trivial = every case; distinct by (kind, window)"
	rapid.Check(t, func(rt *rapid.T) {
		kn := "coll:" + pick(rt, []string{"und", "und", "de", "en-num"}, "cfg") + ":" + pick(rt, []string{"string", "bytes"}, "kt")
		if drawInt(rt, 0, 3, "runes") == 0 {
			kn = "coll:und:runes"
		}
		tr := &Trace{Property: id, Kinds: []string{kn}, Params: map[string]string{"mode": "keylens", "window": strconv.Itoa(pick(rt, []int{4, 6, 8}, "window"))}}
		err := replayKeyLengths(tr)
		stats.AddCase(true, tr.Hash(), []string{"sort_key_length_sweep"}, func() any {
			return map[string]any{"kind": kn, "mode": "sort-key lengths swept across 2^8..2^14", "window": tr.Params["window"]}
		})
		if err != nil {
			tr.Failure = err.Error()
			failures.addOther(tr)
			rt.Fatalf("%s: %v", id, err)
		}
	})
}

func TestKeyLengthsC08(t *testing.T) { runKeyLengths(t, "C08") }
func TestKeyLengthsC01(t *testing.T) { runKeyLengths(t, "C01") }

package harness

// C10: each inner node is a correct ordered byte->child table in every size
// class; the SWAR / SIMD primitives agree with a scalar scan over the occupied
// lanes. Uses the bare node handle and the primitive exports of the hook file.

import (
	"encoding/hex"
	"fmt"
	"sort"
	"strconv"
	"testing"

	art "github.com/Clement-Jean/go-art"
	"pgregory.net/rapid"
)

type nodeModel map[byte]int

func (m nodeModel) sortedBytes() []byte {
	var bs []byte
	for b := range m {
		bs = append(bs, b)
	}
	sort.Slice(bs, func(i, j int) bool { return bs[i] < bs[j] })
	return bs
}

// checkNode compares every observable of the node with the model.
func checkNode(h *art.VerifNodeHandle, m nodeModel) error {
	bs := m.sortedBytes()
	kind := h.Kind()
	if kind == 4 {
		if len(m) != 1 {
			return fmt.Errorf("node was merged away while %d children are registered", len(m))
		}
		if id := h.LeafID(); id != m[bs[0]] {
			return fmt.Errorf("after the merge the surviving child is %d, expected %d", id, m[bs[0]])
		}
		return nil
	}
	if len(m) > classCap[kind] {
		return fmt.Errorf("%d children in a %s", len(m), className[kind])
	}
	for b := 0; b < 256; b++ {
		id, ok := h.Find(byte(b))
		want, wok := m[byte(b)]
		if ok != wok || (ok && id != want) {
			return fmt.Errorf("%s with children %x: probing %#02x found (%d,%v), expected (%d,%v)", className[kind], bs, b, id, ok, want, wok)
		}
	}
	var wantFwd []int
	for _, b := range bs {
		wantFwd = append(wantFwd, m[b])
	}
	if got := h.Forward(); !sameInts(got, wantFwd) {
		return fmt.Errorf("%s with children %x: ascending enumeration yields ids %v, expected %v", className[kind], bs, got, wantFwd)
	}
	wantRev := make([]int, len(wantFwd))
	for i := range wantFwd {
		wantRev[len(wantFwd)-1-i] = wantFwd[i]
	}
	if got := h.Reverse(); !sameInts(got, wantRev) {
		return fmt.Errorf("%s with children %x: descending enumeration yields ids %v, expected %v", className[kind], bs, got, wantRev)
	}
	if len(m) > 0 {
		if got := h.First(); got != wantFwd[0] {
			return fmt.Errorf("%s with children %x: minimum descent reaches %d, expected %d", className[kind], bs, got, wantFwd[0])
		}
		if got := h.Last(); got != wantRev[0] {
			return fmt.Errorf("%s with children %x: maximum descent reaches %d, expected %d", className[kind], bs, got, wantRev[0])
		}
	}
	wantLen := len(m)
	if kind == 3 {
		wantLen = int(uint8(len(m))) // the counter is a uint8
	}
	if h.Len() != wantLen {
		return fmt.Errorf("%s with children %x records fan-out %d, expected %d", className[kind], bs, h.Len(), wantLen)
	}
	snap := h.Snapshot()
	if string(snap.Bytes) != string(bs) {
		return fmt.Errorf("%s enumerates branch bytes %x, expected %x", className[kind], snap.Bytes, bs)
	}
	return nil
}

func sameInts(a, b []int) bool {
	if len(a) != len(b) {
		return false
	}
	for i := range a {
		if a[i] != b[i] {
			return false
		}
	}
	return true
}

type nodeOp struct {
	add bool
	b   byte
}

// replayNode rebuilds a node from ops, checking after every step.
func replayNode(ops []nodeOp, check bool) (h *art.VerifNodeHandle, m nodeModel, err error) {
	h = art.VerifNewNode()
	m = nodeModel{}
	var pfx [10]byte
	copy(pfx[:], "prefixABCD")
	h.SetPrefix(13, pfx)
	defer func() {
		if r := recover(); r != nil {
			err = fmt.Errorf("panic after %d node ops: %v", len(ops), r)
		}
	}()
	for i, op := range ops {
		if h.Kind() == 4 {
			return h, m, nil
		}
		if op.add {
			if _, dup := m[op.b]; dup {
				continue
			}
			id := 1000 + i
			h.Add(op.b, id)
			m[op.b] = id
		} else {
			if _, ok := m[op.b]; !ok || len(m) < 2 {
				continue
			}
			h.Remove(op.b)
			delete(m, op.b)
		}
		if check || i == len(ops)-1 {
			if err := checkNode(h, m); err != nil {
				return h, m, fmt.Errorf("after %d node ops (last: %s): %v", i+1, showNodeOp(op), err)
			}
			if h.Kind() != 4 {
				if n, p := h.Prefix(); n != 13 || p != pfx {
					return h, m, fmt.Errorf("after %d node ops the compressed path of the node changed to (%d,%x)", i+1, n, p)
				}
			}
		}
	}
	return h, m, nil
}

func showNodeOp(op nodeOp) string {
	if op.add {
		return fmt.Sprintf("add(%#02x)", op.b)
	}
	return fmt.Sprintf("remove(%#02x)", op.b)
}

func nodeTrace(ops []nodeOp, msg string) *Trace {
	tr := &Trace{Property: "C10", Kinds: []string{"node"}, Failure: msg, Params: map[string]string{"mode": "sequence"}}
	for _, op := range ops {
		name := "remove"
		if op.add {
			name = "add"
		}
		tr.Ops = append(tr.Ops, Op{Op: name, K: []byte{op.b}})
	}
	return tr
}

func nodeSignature(h *art.VerifNodeHandle, m nodeModel) string {
	if h.Kind() == 4 {
		return "merged"
	}
	s := h.Snapshot()
	return fmt.Sprintf("%d|%d|%x|%x", s.Kind, s.ChildrenLen, s.RawKeys, m.sortedBytes())
}

func scalarSearch(keys []byte, n int, b byte) int {
	for i := 0; i < n && i < len(keys); i++ {
		if keys[i] == b {
			return i
		}
	}
	return -1
}

func scalarInsertPos(keys []byte, n int, b byte) int {
	for i := 0; i < n && i < len(keys); i++ {
		if keys[i] > b {
			return i
		}
	}
	return -1
}

func primTrace(which string, keys []byte, n int, b byte, msg string) *Trace {
	return &Trace{Property: "C10", Kinds: []string{"primitive"}, Failure: msg,
		Params: map[string]string{"mode": which, "keys": hex.EncodeToString(keys), "n": strconv.Itoa(n), "b": strconv.Itoa(int(b))}}
}

func checkPrim16(keys *[16]byte, n int, b byte) *Trace {
	if got, want := art.VerifSearchNode16(keys, uint8(n), b), scalarSearch(keys[:], n, b); got != want {
		return primTrace("search16", keys[:], n, b, fmt.Sprintf("searchNode16(lanes %x, fill %d, probe %#02x) = %d, scalar scan over the occupied lanes gives %d", keys[:], n, b, got, want))
	}
	if got, want := art.VerifInsertPosNode16(keys, uint8(n), b), scalarInsertPos(keys[:], n, b); got != want {
		return primTrace("insertpos16", keys[:], n, b, fmt.Sprintf("insertPosNode16(lanes %x, fill %d, byte %#02x) = %d, scalar scan over the occupied lanes gives %d", keys[:], n, b, got, want))
	}
	return nil
}

func lanesOf(word uint32) []byte {
	return []byte{byte(word), byte(word >> 8), byte(word >> 16), byte(word >> 24)}
}

// checkPrim4 checks the 4-lane search on an arbitrary lane word.
func checkPrim4(word uint32, b byte) *Trace {
	lanes := lanesOf(word)
	if got, want := art.VerifSearchNode4(word, b), scalarSearch(lanes, 4, b); got != want {
		return primTrace("search4", lanes, 4, b, fmt.Sprintf("searchNode4(lanes %x, probe %#02x) = %d, scalar scan gives %d", lanes, b, got, want))
	}
	return nil
}

// checkInsertPos4 checks the position a new byte b (not registered) is given in
// a node4 with n sorted occupied lanes: the routine's answer, or the fill count
// when it reports none, must be the rank of b among the occupied lanes. The
// unoccupied lanes must be of a shape that node4 operations leave behind
// (zeros from the pool, or the duplicated tail a removal leaves).
func checkInsertPos4(word uint32, n int, b byte) *Trace {
	lanes := lanesOf(word)
	got := art.VerifInsertPosNode4(word, b)
	eff := got
	if got == -1 {
		eff = n
	}
	rank := 0
	for i := 0; i < n; i++ {
		if lanes[i] < b {
			rank++
		}
	}
	if eff != rank {
		return primTrace("insertpos4", lanes, n, b, fmt.Sprintf("insertPosNode4(lanes %x, fill %d, new byte %#02x) = %d: the byte would be placed at %d, its rank among the occupied lanes is %d", lanes, n, b, got, eff, rank))
	}
	return nil
}

// node4Words enumerates lane words with n sorted distinct occupied lanes over
// the boundary bytes and unoccupied lanes that are all zero or all equal.
func node4Words(fn func(word uint32, n int, occupied []byte)) {
	var rec func(start int, occ []byte)
	rec = func(start int, occ []byte) {
		n := len(occ)
		stale := [][]byte{make([]byte, 4-n)}
		for _, v := range laneBoundary {
			t := make([]byte, 4-n)
			for i := range t {
				t[i] = v
			}
			stale = append(stale, t)
		}
		if n == 4 {
			stale = stale[:1]
		}
		for _, st := range stale {
			l := append(append([]byte(nil), occ...), st...)
			fn(uint32(l[0])|uint32(l[1])<<8|uint32(l[2])<<16|uint32(l[3])<<24, n, occ)
		}
		if n == 4 {
			return
		}
		for i := start; i < len(laneBoundary); i++ {
			rec(i+1, append(append([]byte(nil), occ...), laneBoundary[i]))
		}
	}
	rec(0, nil)
}

var laneBoundary = []byte{0x00, 0x01, 0x02, 0x7e, 0x7f, 0x80, 0x81, 0xfe, 0xff}

func TestC10(t *testing.T) {
	stats.Property = "C10"
	replayRegressions(t, "C10")
	stats.Rule = "(a) closure: breadth-first enumeration of every reachable state (size class + raw key area + fill count) of a bare node under add/remove of the bytes {00,01,7f,80,fe,ff} (covers node4, growth to node16, shrink back with stale lanes, merge); " +
		"(b) 4-lane primitives: searchNode4 on all 9^4 lane words over boundary bytes x all 256 probes plus generated words, insertPosNode4's effective position on every word with 0..4 sorted boundary lanes and zero / duplicated-tail unoccupied lanes x every unregistered byte; (c) 16-lane primitives: generated lane arrays (sorted occupied part, arbitrary bytes in unoccupied lanes) x every fill 0..16 x all 256 probes against a scalar scan; " +
		"(d) rapid add/remove sequences and sweeps across node48/node256 with all 256 probes, both enumeration orders, extremes and the fill counter checked after every step; " +
		"non-trivial = a state/step whose probe or branch byte is one of {00,7f,80,ff} or that has an unoccupied lane holding a stale/zero byte; distinct by (node state signature, op) or (lanes, fill)"
	thorough := *flagTier == "thorough"
	fail := func(tr *Trace) {
		failures.addOther(tr)
		t.Fatalf("C10: %s", tr.Failure)
	}

	// (a) closure over boundary bytes
	if *flagShard == 0 {
		universe := []byte{0x00, 0x01, 0x7f, 0x80, 0xfe, 0xff}
		if thorough {
			universe = []byte{0x00, 0x01, 0x02, 0x7e, 0x7f, 0x80, 0x81, 0xfe, 0xff}
		}
		seen := map[string]bool{}
		queue := [][]nodeOp{{}}
		transitions := 0
		for len(queue) > 0 {
			path := queue[0]
			queue = queue[1:]
			h, m, err := replayNode(path, false)
			if err != nil {
				fail(nodeTrace(path, err.Error()))
			}
			sig := nodeSignature(h, m)
			if h.Kind() != 4 {
				h.Release()
			}
			if seen[sig] {
				continue
			}
			seen[sig] = true
			if sig == "merged" {
				continue
			}
			for _, b := range universe {
				_, present := m[b]
				if present && len(m) < 2 {
					continue
				}
				next := append(append([]nodeOp(nil), path...), nodeOp{add: !present, b: b})
				transitions++
				// the check of the successor happens when it is rebuilt (last step checked)
				h2, _, err := replayNode(next, false)
				if err != nil {
					fail(nodeTrace(next, err.Error()))
				}
				if h2.Kind() != 4 {
					h2.Release()
				}
				queue = append(queue, next)
			}
		}
		stats.AddBulk(transitions, transitions, "closure_transitions")
		stats.Extra["closure_states"] = len(seen)
		stats.Exhaustive[fmt.Sprintf("node_closure_over_%d_boundary_bytes", len(universe))] = true
	}

	// (b) 4-lane primitives, exhaustive over boundary lane words
	if *flagShard == 0 {
		n := 0
		for _, a := range laneBoundary {
			for _, b := range laneBoundary {
				for _, c := range laneBoundary {
					for _, d := range laneBoundary {
						w := uint32(a) | uint32(b)<<8 | uint32(c)<<16 | uint32(d)<<24
						for p := 0; p < 256; p++ {
							if tr := checkPrim4(w, byte(p)); tr != nil {
								fail(tr)
							}
							n++
						}
					}
				}
			}
		}
		stats.AddBulk(n, n, "prim4_boundary_words")
		stats.Exhaustive["search4_9^4_boundary_words_x_256_probes"] = true
		n = 0
		node4Words(func(w uint32, fill int, occ []byte) {
			for p := 0; p < 256; p++ {
				if scalarSearch(occ, len(occ), byte(p)) != -1 {
					continue // only unregistered bytes are ever added
				}
				if tr := checkInsertPos4(w, fill, byte(p)); tr != nil {
					fail(tr)
				}
				n++
			}
		})
		stats.AddBulk(n, n, "insertpos4_wellformed_words")
		stats.Exhaustive["insertpos4_sorted_boundary_lanes_x_zero_or_duplicated_tail_x_256_bytes"] = true
	}

	// (c) + (d) generated
	rapid.Check(t, func(rt *rapid.T) {
		// 4-lane words, arbitrary
		for i := 0; i < 8; i++ {
			w := rapid.Uint32().Draw(rt, "word")
			if drawInt(rt, 0, 1, "near") == 1 { // lanes close to each other
				base := byte(drawInt(rt, 0, 255, "base"))
				w = 0
				for l := 0; l < 4; l++ {
					w |= uint32(base+byte(drawInt(rt, 0, 3, "dl"))) << (8 * l)
				}
			}
			for p := 0; p < 256; p++ {
				if tr := checkPrim4(w, byte(p)); tr != nil {
					failures.addOther(tr)
					rt.Fatalf("C10: %s", tr.Failure)
				}
			}
			stats.AddCase(true, hashPair("w4", uint64(w), 0), []string{"prim4_generated"}, nil)
		}

		// 16-lane arrays: sorted distinct occupied part, arbitrary rest
		var keys [16]byte
		fill := drawInt(rt, 0, 16, "fill")
		occ := map[byte]bool{}
		start := drawInt(rt, 0, 255, "occstart")
		step := pick(rt, []int{1, 1, 2, 7, 15, 16}, "occstep")
		var occBytes []byte
		for len(occBytes) < fill {
			var b byte
			if drawInt(rt, 0, 3, "occmode") == 0 {
				b = pick(rt, laneBoundary, "occb")
			} else {
				b = byte(start + len(occBytes)*step)
			}
			for occ[b] {
				b++
			}
			occ[b] = true
			occBytes = append(occBytes, b)
		}
		sort.Slice(occBytes, func(i, j int) bool { return occBytes[i] < occBytes[j] })
		copy(keys[:], occBytes)
		staleEqual := false
		for i := fill; i < 16; i++ {
			switch drawInt(rt, 0, 3, "stalemode") {
			case 0:
				keys[i] = 0
			case 1:
				keys[i] = pick(rt, laneBoundary, "staleb")
			case 2:
				if fill > 0 {
					keys[i] = occBytes[drawInt(rt, 0, fill-1, "stalecopy")]
					staleEqual = true
				}
			default:
				keys[i] = byte(drawInt(rt, 0, 255, "stalernd"))
			}
		}
		// every fill count from 0 to the drawn one sees the same lanes: the lanes beyond are then stale
		for n := 0; n <= fill; n++ {
			for p := 0; p < 256; p++ {
				if tr := checkPrim16(&keys, n, byte(p)); tr != nil {
					failures.addOther(tr)
					rt.Fatalf("C10: %s", tr.Failure)
				}
			}
		}
		labels := []string{"prim16_generated", "prim16_fill_" + strconv.Itoa(fill)}
		if staleEqual {
			labels = append(labels, "prim16_stale_lane_equals_occupied")
		}
		k0, k1 := bitsOf(keys[:8]), bitsOf(keys[8:])
		stats.AddCase(true, hashPair("w16", k0, k1^uint64(fill)), labels, func() any {
			return map[string]any{"kind": "16-lane primitives", "lanes": hex.EncodeToString(keys[:]), "fill": fill, "probes": 256}
		})

		// sequences on a bare node
		var ops []nodeOp
		win := pick(rt, [][2]int{{0, 256}, {0, 24}, {0x70, 0x20}, {0xE8, 24}, {0, 60}}, "window")
		mode := drawInt(rt, 0, 3, "seqmode")
		if mode == 0 { // sweep up then down
			upto := pick(rt, []int{5, 17, 49, 60, 255, 256}, "upto")
			first := drawInt(rt, 0, 255, "first")
			stride := pick(rt, []int{1, 3, 5, 255}, "stride")
			var bs []byte
			for i := 0; i < upto; i++ {
				bs = append(bs, byte(first+i*stride))
			}
			for _, b := range bs {
				ops = append(ops, nodeOp{true, b})
			}
			order := drawInt(rt, 0, 2, "downorder")
			keep := pick(rt, []int{1, 2, 3, 4, 12, 13, 37, 38}, "keep")
			for i := 0; i < len(bs)-keep; i++ {
				j := i
				if order == 1 {
					j = len(bs) - 1 - i
				} else if order == 2 {
					j = (i*7 + 3) % len(bs)
				}
				ops = append(ops, nodeOp{false, bs[j]})
			}
			if order == 2 { // may contain repeats (skipped by the interpreter): add a tail of removals
				for _, b := range bs[:len(bs)/2] {
					ops = append(ops, nodeOp{false, b})
				}
			}
			// up again: a node that reached its class by shrinking receives new children
			// (and removed ones come back), below, between and above the survivors
			if again := pick(rt, []int{0, 1, 2, 5, 12, 30}, "again"); again > 0 {
				start := drawInt(rt, 0, 255, "againfirst")
				step := pick(rt, []int{1, 7, 255}, "againstep")
				for i := 0; i < again; i++ {
					ops = append(ops, nodeOp{true, byte(start + i*step)})
				}
			}
		} else {
			n := drawInt(rt, 1, 120, "nops")
			for i := 0; i < n; i++ {
				b := byte(win[0] + drawInt(rt, 0, win[1]-1, "sb"))
				if drawInt(rt, 0, 9, "boundary") == 0 {
					b = pick(rt, []byte{0x00, 0x7f, 0x80, 0xff}, "bb")
				}
				ops = append(ops, nodeOp{drawInt(rt, 0, 2, "addrm") != 0, b})
			}
		}
		h, m, err := replayNode(ops, true)
		if err != nil {
			tr := nodeTrace(ops, err.Error())
			failures.addOther(minimizeNodeTrace(tr))
			rt.Fatalf("C10: %v", err)
		}
		kind := h.Kind()
		if kind != 4 {
			h.Release()
		}
		lbl := []string{"sequence", "seq_end_" + className[kind]}
		_, hasNul := m[0]
		if hasNul {
			lbl = append(lbl, "seq_branch_byte_00")
		}
		tr := nodeTrace(ops, "")
		stats.AddCase(len(ops) >= 2, tr.Hash(), lbl, func() any {
			var s []string
			for i, op := range ops {
				if i >= 24 {
					s = append(s, fmt.Sprintf("... +%d ops", len(ops)-24))
					break
				}
				s = append(s, showNodeOp(op))
			}
			return map[string]any{"kind": "bare-node sequence", "ops": s, "ends_as": className[kind], "children": len(m)}
		})
	})
}

func minimizeNodeTrace(tr *Trace) *Trace {
	toOps := func(ops []Op) []nodeOp {
		var out []nodeOp
		for _, op := range ops {
			out = append(out, nodeOp{op.Op == "add", op.K[0]})
		}
		return out
	}
	ops := append([]Op(nil), tr.Ops...)
	msg := tr.Failure
	for i := 0; i < len(ops); {
		cand := append(append([]Op(nil), ops[:i]...), ops[i+1:]...)
		if _, _, err := replayNode(toOps(cand), true); err != nil {
			ops, msg = cand, err.Error()
		} else {
			i++
		}
	}
	out := *tr
	out.Ops, out.Failure = ops, msg
	return &out
}

func init() {
	customReplays["C10"] = func(tr *Trace) error {
		switch tr.Params["mode"] {
		case "sequence":
			var ops []nodeOp
			for _, op := range tr.Ops {
				ops = append(ops, nodeOp{op.Op == "add", op.K[0]})
			}
			_, _, err := replayNode(ops, true)
			return err
		}
		keys, _ := hex.DecodeString(tr.Params["keys"])
		n, _ := strconv.Atoi(tr.Params["n"])
		b, _ := strconv.Atoi(tr.Params["b"])
		var t2 *Trace
		if len(keys) == 16 {
			var k [16]byte
			copy(k[:], keys)
			t2 = checkPrim16(&k, n, byte(b))
		} else if len(keys) == 4 {
			w := uint32(keys[0]) | uint32(keys[1])<<8 | uint32(keys[2])<<16 | uint32(keys[3])<<24
			if tr.Params["mode"] == "insertpos4" {
				t2 = checkInsertPos4(w, n, byte(b))
			} else {
				t2 = checkPrim4(w, byte(b))
			}
		}
		if t2 != nil {
			return fmt.Errorf("%s", t2.Failure)
		}
		return nil
	}
}

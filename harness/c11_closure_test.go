package harness

// C11 (second part): closed state-space exploration. For small key universes
// every reachable tree (identified by its canonical dump, size classes
// included) is visited breadth-first by applying insert k / delete k for every
// k of the universe; the structural oracle runs on every successor, and two
// histories that reach the same key set must produce the same shape apart
// from size classes. Plus sweeps that cross every grow / shrink threshold at
// every child position.

import (
	"fmt"
	"sort"
	"strings"
	"testing"
)

type closureUniverse struct {
	name     string
	kind     string
	keys     [][]byte
	thorough bool // explored in the thorough tier only (4 096 states)
}

func bs(ss ...string) [][]byte {
	var out [][]byte
	for _, s := range ss {
		out = append(out, []byte(s))
	}
	return out
}

func u16keys(vs ...uint16) [][]byte {
	var out [][]byte
	for _, v := range vs {
		out = append(out, rawOf(uint64(v)))
	}
	return out
}

var closureUniverses = []closureUniverse{
	{"splits-around-inline-limit", "alpha:string", bs(
		"0123456789ABCDEFx", "0123456789ABCDEFy", // share a 16-byte path
		"0123456789Ax",     // diverges at offset 11 (beyond the inline bytes)
		"0123456789Zx",     // diverges at offset 10
		"012345678Zx",      // diverges at offset 9
		"0Zx",              // diverges at offset 1
		"",                 // empty key
		"0123456789ABCDEF", // proper prefix of stored keys
		"Zq",
	), false},
	{"merges-producing-9-10-11-byte-paths", "alpha:bytes", bs(
		"abcdefghXmn1", "abcdefghXmn2", "abcdefghY", // merge gives 8+1+2 = 11
		"ABCDEFGXmn1", "ABCDEFGXmn2", "ABCDEFGY", // 7+1+2 = 10
		"zyxwvuXmn1", "zyxwvuXmn2", "zyxwvuY", // 6+1+2 = 9
	), false},
	{"numeric-u16", "u16", u16keys(0x0000, 0x0001, 0x00ff, 0x0100, 0x7fff, 0x8000, 0x80ff, 0xff00, 0xffff), false},
	{"collation-case-accent", "coll:und:string", bs("a", "A", "á", "ab", "aB", "b", "", "ábc", "abc"), false},
	{"node4-node16-boundary-bytes", "alpha:bytes", bs(
		"stem\x01", "stem\x7f", "stem\x80", "stem\xfe", "stem\xff", "stem\x02x", "stem\x02y", "stem", "ste",
	), false},
	{"float64-specials", "f64", [][]byte{
		rawOf(0x7ff8000000000001), rawOf(0xfff0000000000000), rawOf(0x8000000000000000), rawOf(0), rawOf(0x3ff0000000000000),
		rawOf(0xbff0000000000000), rawOf(0x7ff0000000000000), rawOf(1), rawOf(0x8000000000000001),
	}, false},
	{"int8-signs", "i8", [][]byte{rawOf(0x80), rawOf(0xff), rawOf(0), rawOf(1), rawOf(0x7f), rawOf(0xfe), rawOf(0x81), rawOf(2)}, false},
	{name: "alpha-12-keys", kind: "alpha:string", thorough: true, keys: bs(
		"", "a", "ab", "abcdefghijk1", "abcdefghijk2", "abcdefghijX", "abcdefghiY", "abcdefghijk", "b", "b\x01", "b\x80", "b\xff",
	)},
	{name: "uint32-12-keys", kind: "u32", thorough: true, keys: [][]byte{
		rawOf(0), rawOf(1), rawOf(0x100), rawOf(0x101), rawOf(0x10000), rawOf(0x10001), rawOf(0x1000000), rawOf(0x7fffffff),
		rawOf(0x80000000), rawOf(0x80000001), rawOf(0xffffff00), rawOf(0xffffffff),
	}},
	{name: "collation-de-11-keys", kind: "coll:de:string", thorough: true, keys: bs("a", "ä", "ae", "Ä", "az", "b", "ß", "ss", "sz", "s", "")},
	{"compound-u8-str", "cmp:u8,str", [][]byte{
		append(rawOf(1), "ab"...), append(rawOf(1), "ac"...), append(rawOf(1), ""...), append(rawOf(2), "ab"...),
		append(rawOf(0x80), "abcdefghijklmn1"...), append(rawOf(0x80), "abcdefghijklmn2"...), append(rawOf(0x80), "abcdefghijkX"...), append(rawOf(0xff), ""...),
	}, false},
}

func closureTrace(u closureUniverse, path []Op, msg string) *Trace {
	return &Trace{Property: "C11", Kinds: []string{u.kind}, Ops: path, Failure: msg}
}

// buildFrom replays path on a fresh engine (shape audit on the last op only).
func buildFrom(kind Kind, path []Op) (*Engine, error) {
	cfg := &Config{Property: "C11", Assert: asserts("shape")}
	eng := NewEngine(cfg, []Kind{kind})
	for _, op := range path {
		if err := eng.Apply(op); err != nil {
			return eng, err
		}
	}
	if err := eng.apply(eng.slots[0], Op{Op: "shape"}); err != nil {
		return eng, err
	}
	return eng, nil
}

func keySetID(m *Model) string {
	var ids []string
	for _, en := range m.Sorted() {
		ids = append(ids, fmt.Sprintf("%x", en.Raw))
	}
	sort.Strings(ids)
	return fmt.Sprintf("%d:", len(ids)) + strings.Join(ids, ",")
}

// valuesErased renders the dump without values (they differ between histories).
func shapeDigest(e *Engine, withClass bool) string {
	d := VerifDumpOf(e.slots[0].sub)
	s := canonicalDump(d, withClass)
	var out []string
	for _, l := range strings.Split(s, "\n") {
		if i := strings.Index(l, " val="); i >= 0 {
			l = l[:i]
		}
		out = append(out, l)
	}
	return strings.Join(out, "\n")
}

func TestC11Closure(t *testing.T) {
	stats.Property = "C11"
	if *flagShard != 0 {
		return
	}
	for _, u := range closureUniverses {
		if u.thorough && *flagTier != "thorough" {
			continue
		}
		kind := MustKind(u.kind)
		seen := map[string]bool{}
		classless := map[string]string{} // key set -> classless digest
		queue := [][]Op{{}}
		states, transitions := 0, 0
		for len(queue) > 0 {
			path := queue[0]
			queue = queue[1:]
			eng, err := buildFrom(kind, path)
			if err != nil {
				tr := closureTrace(u, path, err.Error())
				failures.addOther(tr)
				t.Fatalf("C11 closure (%s): %v", u.name, err)
			}
			dig := shapeDigest(eng, true)
			if seen[dig] {
				continue
			}
			seen[dig] = true
			states++
			ks := keySetID(eng.slots[0].model)
			cl := shapeDigest(eng, false)
			if prev, ok := classless[ks]; ok && prev != cl {
				msg := fmt.Sprintf("two histories reach the key set {%s} with different shapes (size classes aside):\n%s\nvs\n%s", ks, prev, cl)
				failures.addOther(closureTrace(u, path, msg))
				t.Fatalf("C11 closure (%s): %s", u.name, msg)
			}
			classless[ks] = cl
			for i, k := range u.keys {
				_, present := eng.slots[0].model.Get(kind.Canon(k))
				op := Op{Op: "insert", K: k, V: 100 + i}
				if present {
					op = Op{Op: "delete", K: k}
				}
				next := append(append([]Op(nil), path...), op)
				transitions++
				if _, err := buildFrom(kind, next); err != nil {
					tr := closureTrace(u, next, err.Error())
					failures.addOther(tr)
					t.Fatalf("C11 closure (%s): %v", u.name, err)
				}
				queue = append(queue, next)
			}
		}
		stats.AddBulk(transitions, transitions, "closure_"+u.name)
		stats.Extra["closure_states_"+u.name] = states
		stats.Exhaustive["closure_"+u.name] = true
	}

	// threshold sweeps: cross every grow / shrink boundary at every child position
	type sweep struct {
		name   string
		before int // children before the crossing op
		grow   bool
	}
	sweeps := []sweep{{"grow-4-16", 4, true}, {"grow-16-48", 16, true}, {"grow-48-256", 48, true},
		{"shrink-16-4", 4, false}, {"shrink-48-16", 13, false}, {"shrink-256-48", 38, false}, {"merge-2-1", 2, false}}
	for _, kn := range []string{"alpha:string", "u16", "i32", "f32"} {
		kind := MustKind(kn)
		for _, stem := range []string{"", "long-stem-0123456789"} {
			if !kind.IsBytes() && stem != "" {
				continue
			}
			mk := func(b int) []byte {
				if kind.IsBytes() {
					return append([]byte(stem), byte(b), 'k')
				}
				w := kind.(*numKind).width
				return kind.Canon(rawOf(uint64(b)<<uint(w-8) | 0x11))
			}
			for _, sw := range sweeps {
				n := 0
				// children spread over the byte range, leaving gaps for the crossing insert
				var base []int
				total := sw.before
				if !sw.grow {
					// reach the class first: a shrink needs the node to have been grown beyond it
					total = map[int]int{4: 5, 13: 17, 38: 49, 2: 2}[sw.before]
				}
				for i := 0; i < total; i++ {
					base = append(base, 2+i*5)
				}
				for pos := 0; pos <= len(base); pos++ {
					var path []Op
					for i, b := range base {
						path = append(path, Op{Op: "insert", K: mk(b), V: i + 1})
					}
					if sw.grow {
						nb := 1
						if pos > 0 {
							nb = base[pos-1] + 2
						}
						path = append(path, Op{Op: "insert", K: mk(nb), V: 999})
					} else {
						// shrink down to `before` children by deleting from the end, then delete position pos
						cur := append([]int(nil), base...)
						for len(cur) > sw.before {
							path = append(path, Op{Op: "delete", K: mk(cur[len(cur)-1])})
							cur = cur[:len(cur)-1]
						}
						if pos >= len(cur) {
							continue
						}
						path = append(path, Op{Op: "delete", K: mk(cur[pos])})
					}
					cfg := &Config{Property: "C11", Assert: asserts("shape"), AuditOps: []string{"shape"}, AuditEvery: 1}
					eng := NewEngine(cfg, []Kind{kind})
					for i, op := range path {
						if err := eng.Apply(op); err != nil {
							tr := &Trace{Property: "C11", Kinds: []string{kn}, Ops: path[:i+1], Failure: err.Error()}
							failures.addOther(minimize(tr))
							t.Fatalf("C11 threshold sweep %s on %s: %v", sw.name, kn, err)
						}
					}
					n++
				}
				stats.AddBulk(n, n, "threshold_"+sw.name)
			}
		}
	}
}

package harness

// C16, part C: sustained parallel use. Every goroutine owns one tree and runs a
// long, tight loop of lookups, overwrites and short scans on it, all goroutines
// at full speed on all processors. Parts A and B sample schedules of short
// histories under the race detector; a window of a few instructions in shared,
// atomically updated state (no data race to report) is only ever hit by volume:
// millions of operations with real parallelism. The oracle is the sequential
// meaning of each goroutine's own operations; a fault in any goroutine counts.

import (
	"fmt"
	"runtime"
	"strconv"
	"sync"
	"testing"

	"pgregory.net/rapid"
)

var hammerKinds = []string{"u64", "i32", "f64", "u16", "u8", "i64", "f32", "alpha:string", "alpha:bytes", "cmp:u16,i32,str", "cmp:u8,u64"}

// runHammer: g goroutines, goroutine i owns a tree of kind kinds[i%len] with nkeys keys and
// performs ops operations. Returns the first failure.
func runHammer(kinds []string, g, nkeys, ops, procs int) error {
	old := runtime.GOMAXPROCS(procs)
	defer runtime.GOMAXPROCS(old)
	var wg sync.WaitGroup
	errs := make([]error, g)
	start := make(chan struct{})
	for i := 0; i < g; i++ {
		wg.Add(1)
		go func(i int) {
			defer wg.Done()
			kn := kinds[i%len(kinds)]
			kind := MustKind(kn)
			defer func() {
				if r := recover(); r != nil && errs[i] == nil {
					errs[i] = fmt.Errorf("goroutine %d (private %s tree): an operation did not return normally: %v", i, kn, r)
				}
			}()
			sub := NewSubject(kind, IntVals)
			seen := map[string]int{}
			var keys [][]byte
			for j := 0; len(keys) < nkeys && j < 8*nkeys; j++ {
				k := kind.Canon(freshKey(kind, i*1000003+j))
				if _, dup := seen[kind.Ident(k)]; !dup {
					seen[kind.Ident(k)] = len(keys)
					keys = append(keys, k)
				}
			}
			var absent [][]byte
			for j := 0; len(absent) < 16 && j < 4096; j++ {
				k := kind.Canon(freshKey(kind, 900000000+i*4099+j))
				if _, dup := seen[kind.Ident(k)]; !dup {
					absent = append(absent, k)
				}
			}
			vals := make([]int, len(keys))
			for j, k := range keys {
				vals[j] = j + 1
				sub.Insert(k, j+1)
			}
			<-start
			for n := 0; n < ops; n++ {
				j := (n*7919 + i) % len(keys)
				switch {
				case n%97 == 0: // overwrite
					vals[j] = n + 1
					sub.Insert(keys[j], n+1)
				case n%31 == 0 && len(absent) > 0:
					if _, ok := sub.Search(absent[n%len(absent)]); ok {
						errs[i] = fmt.Errorf("goroutine %d (private %s tree), op %d: Search of an absent key reports present", i, kn, n)
						return
					}
				case n%1009 == 0:
					cnt := 0
					sub.Range(keys[j], keys[(j+1)%len(keys)])(func([]byte, int) bool { cnt++; return cnt < 4 })
				case n%2003 == 0: // delete and re-insert
					if !sub.Delete(keys[j]) {
						errs[i] = fmt.Errorf("goroutine %d (private %s tree), op %d: Delete of a stored key reports absent", i, kn, n)
						return
					}
					sub.Insert(keys[j], vals[j])
				default:
					if v, ok := sub.Search(keys[j]); !ok || v != vals[j] {
						errs[i] = fmt.Errorf("goroutine %d (private %s tree), op %d: Search(%s) = (%d,%v), the goroutine's own history says (%d,true)", i, kn, n, kind.Show(keys[j]), v, ok, vals[j])
						return
					}
				}
			}
			if sub.Size() != len(keys) {
				errs[i] = fmt.Errorf("goroutine %d (private %s tree): Size() = %d after the loop, expected %d", i, kn, sub.Size(), len(keys))
			}
		}(i)
	}
	close(start)
	wg.Wait()
	for _, e := range errs {
		if e != nil {
			return e
		}
	}
	return nil
}

func hammerTrace(kinds []string, g, nkeys, ops, procs int, msg string) *Trace {
	return &Trace{Property: "C16", Kinds: kinds, Failure: msg, Params: map[string]string{"part": "C-hammer",
		"goroutines": strconv.Itoa(g), "nkeys": strconv.Itoa(nkeys), "ops": strconv.Itoa(ops), "gomaxprocs": strconv.Itoa(procs)}}
}

func replayHammer(tr *Trace) error {
	g, _ := strconv.Atoi(tr.Params["goroutines"])
	nk, _ := strconv.Atoi(tr.Params["nkeys"])
	ops, _ := strconv.Atoi(tr.Params["ops"])
	procs, _ := strconv.Atoi(tr.Params["gomaxprocs"])
	for i := 0; i < 5; i++ { // the failure depends on the schedule: several attempts
		if err := runHammer(tr.Kinds, g, nk, ops, procs); err != nil {
			return err
		}
	}
	return nil
}

func TestC16Hammer(t *testing.T) {
	noAliasing = true // harness bookkeeping that goroutines must not share
	stats.Property = "C16"
	stats.Rule = "part C (volume): 8..16 goroutines, each with a private tree (numeric, byte-string and compound kinds), run tight loops of lookups, overwrites, failed lookups, short ranges and delete/re-insert pairs in parallel on all processors, millions of operations in total; every result must be what the goroutine's own sequential history says and no call may fault; non-trivial = all goroutines completed their loops"
	ops := 400000
	if *flagTier == "thorough" {
		ops = 2000000
	}
	ops = int(float64(ops) * *flagScale)
	rapid.Check(t, func(rt *rapid.T) {
		g := pick(rt, []int{8, 16, 16}, "goroutines")
		var kinds []string
		if drawInt(rt, 0, 1, "samekind") == 0 {
			kinds = []string{pick(rt, hammerKinds, "hkind")}
		} else {
			for i := 0; i < g; i++ {
				kinds = append(kinds, pick(rt, hammerKinds, "hkind"))
			}
		}
		nkeys := pick(rt, []int{1, 50, 1000}, "hkeys")
		procs := pick(rt, []int{16, 16, 8, 4}, "hprocs")
		err := runHammer(kinds, g, nkeys, ops, procs)
		tr := hammerTrace(kinds, g, nkeys, ops, procs, "")
		stats.AddCase(true, tr.Hash()^uint64(g*131+nkeys*7+procs), []string{"part_C_hammer", "hammer_goroutines_" + strconv.Itoa(g)}, func() any {
			return map[string]any{"part": "C-hammer", "goroutines": g, "kinds": kinds, "keys_per_tree": nkeys, "ops_per_goroutine": ops, "gomaxprocs": procs}
		})
		if err != nil {
			tr.Failure = err.Error()
			failures.addOther(tr)
			rt.Fatalf("C16: %v", err)
		}
	})
}

package harness

// C16, part C: sustained parallel use. Every goroutine owns one tree and runs a
// long, tight loop of lookups, overwrites and short scans on it, all goroutines
// at full speed on all processors. Parts A and B sample schedules of short
// histories under the race detector; a window of a few instructions in shared,
// atomically updated state (no data race to report) is only ever hit by volume:
// millions of operations with real parallelism. The oracle is the sequential
// meaning of each goroutine's own operations; a fault in any goroutine counts.

import (
	"fmt"
	"runtime"
	"strconv"
	"sync"
	"testing"

	"pgregory.net/rapid"
)

var hammerKinds = []string{"u64", "i32", "f64", "u16", "u8", "i64", "f32", "alpha:string", "alpha:bytes", "cmp:u16,i32,str", "cmp:u8,u64"}

// runHammer: g goroutines, goroutine i owns a tree of kind kinds[i%len] with nkeys keys and
// performs ops operations. Returns the first failure.
func runHammer(kinds []string, g, nkeys, ops, procs int) error {
	old := runtime.GOMAXPROCS(procs)
	defer runtime.GOMAXPROCS(old)
	var wg sync.WaitGroup
	errs := make([]error, g)
	start := make(chan struct{})
	for i := 0; i < g; i++ {
		wg.Add(1)
		go func(i int) {
			defer wg.Done()
			kn := kinds[i%len(kinds)]
			kind := MustKind(kn)
			defer func() {
				if r := recover(); r != nil && errs[i] == nil {
					errs[i] = fmt.Errorf("goroutine %d (private %s tree): an operation did not return normally: %v", i, kn, r)
				}
			}()
			sub := NewSubject(kind, IntVals)
			seen := map[string]int{}
			var keys [][]byte
			for j := 0; len(keys) < nkeys && j < 8*nkeys; j++ {
				k := kind.Canon(freshKey(kind, i*1000003+j))
				if _, dup := seen[kind.Ident(k)]; !dup {
					seen[kind.Ident(k)] = len(keys)
					keys = append(keys, k)
				}
			}
			var absent [][]byte
			for j := 0; len(absent) < 16 && j < 4096; j++ {
				k := kind.Canon(freshKey(kind, 900000000+i*4099+j))
				if _, dup := seen[kind.Ident(k)]; !dup {
					absent = append(absent, k)
				}
			}
			vals := make([]int, len(keys))
			for j, k := range keys {
				vals[j] = j + 1
				sub.Insert(k, j+1)
			}
			<-start
			for n := 0; n < ops; n++ {
				j := (n*7919 + i) % len(keys)
				switch {
				case n%97 == 0: // overwrite
					vals[j] = n + 1
					sub.Insert(keys[j], n+1)
				case n%31 == 0 && len(absent) > 0:
					if _, ok := sub.Search(absent[n%len(absent)]); ok {
						errs[i] = fmt.Errorf("goroutine %d (private %s tree), op %d: Search of an absent key reports present", i, kn, n)
						return
					}
				case n%1009 == 0:
					cnt := 0
					sub.Range(keys[j], keys[(j+1)%len(keys)])(func([]byte, int) bool { cnt++; return cnt < 4 })
				case n%2003 == 0: // delete and re-insert
					if !sub.Delete(keys[j]) {
						errs[i] = fmt.Errorf("goroutine %d (private %s tree), op %d: Delete of a stored key reports absent", i, kn, n)
						return
					}
					sub.Insert(keys[j], vals[j])
				default:
					if v, ok := sub.Search(keys[j]); !ok || v != vals[j] {
						errs[i] = fmt.Errorf("goroutine %d (private %s tree), op %d: Search(%s) = (%d,%v), the goroutine's own history says (%d,true)", i, kn, n, kind.Show(keys[j]), v, ok, vals[j])
						return
					}
				}
			}
			if sub.Size() != len(keys) {
				errs[i] = fmt.Errorf("goroutine %d (private %s tree): Size() = %d after the loop, expected %d", i, kn, sub.Size(), len(keys))
			}
		}(i)
	}
	close(start)
	wg.Wait()
	for _, e := range errs {
		if e != nil {
			return e
		}
	}
	return nil
}

// runHoverHammer: g goroutines with private trees whose root hovers on the size-class thresholds:
// the fan-out is driven 12 -> 17 -> 12 -> 49 -> 37 -> 49 ... so that every round releases and
// acquires big nodes (node16/48/256) from the shared pools, all goroutines doing so at the same
// time. After every phase the goroutine checks its whole tree against what it stored.
func runHoverHammer(kinds []string, g, rounds, procs int) error {
	old := runtime.GOMAXPROCS(procs)
	defer runtime.GOMAXPROCS(old)
	var wg sync.WaitGroup
	errs := make([]error, g)
	start := make(chan struct{})
	for i := 0; i < g; i++ {
		wg.Add(1)
		go func(i int) {
			defer wg.Done()
			kn := kinds[i%len(kinds)]
			kind := MustKind(kn)
			defer func() {
				if r := recover(); r != nil && errs[i] == nil {
					errs[i] = fmt.Errorf("goroutine %d (private %s tree hovering on the size-class thresholds): an operation did not return normally: %v", i, kn, r)
				}
			}()
			key := func(j int) []byte {
				if kind.IsBytes() {
					return kind.Canon([]byte{'h', byte(i + 1), byte(j + 1), 'x'})
				}
				return kind.Canon(rawOf(uint64(i+1)<<16 | uint64(j+1)))
			}
			sub := NewSubject(kind, IntVals)
			present := map[int]int{}
			check := func(phase string, round int) bool {
				if sub.Size() != len(present) {
					errs[i] = fmt.Errorf("goroutine %d (private %s tree), round %d, %s: Size() = %d, the goroutine stored %d keys", i, kn, round, phase, sub.Size(), len(present))
					return false
				}
				for j, v := range present {
					if got, ok := sub.Search(key(j)); !ok || got != v {
						errs[i] = fmt.Errorf("goroutine %d (private %s tree), round %d, %s: Search(%s) = (%d,%v), the goroutine's own history says (%d,true)", i, kn, round, phase, kind.Show(key(j)), got, ok, v)
						return false
					}
				}
				return true
			}
			setTo := func(n, round int) bool {
				for j := len(present); j < n; j++ {
					present[j] = round*1000 + j
					sub.Insert(key(j), round*1000+j)
				}
				for j := len(present) - 1; j >= n; j-- {
					if !sub.Delete(key(j)) {
						errs[i] = fmt.Errorf("goroutine %d (private %s tree), round %d: Delete(%s) of a stored key reports absent", i, kn, round, kind.Show(key(j)))
						return false
					}
					delete(present, j)
				}
				return true
			}
			<-start
			for r := 0; r < rounds; r++ {
				for _, n := range []int{17, 12, 49, 37, 50, 36, 16, 3} {
					if !setTo(n, r) || (r%8 == 0 && !check(fmt.Sprintf("fan-out %d", n), r)) {
						return
					}
				}
			}
			check("end", rounds)
		}(i)
	}
	close(start)
	wg.Wait()
	for _, e := range errs {
		if e != nil {
			return e
		}
	}
	return nil
}

// runSharedHammer: one quiescent tree (built before the goroutines start) is read by g goroutines
// at full speed: lookups of present and absent keys, extremes, short ranges and scans stopped
// early. Every answer is compared with the one computed sequentially beforehand.
func runSharedHammer(kn string, g, nkeys, ops, procs int) error {
	old := runtime.GOMAXPROCS(procs)
	defer runtime.GOMAXPROCS(old)
	kind := MustKind(kn)
	sub := NewSubject(kind, IntVals)
	m := NewModel(kind)
	for j := 0; m.Len() < nkeys && j < 8*nkeys; j++ {
		k := kind.Canon(freshKey(kind, 77000000+j))
		if _, dup := m.Get(k); !dup {
			m.Put(k, j+1)
			sub.Insert(k, j+1)
		}
	}
	es := m.Sorted()
	var absent [][]byte
	for j := 0; len(absent) < 16 && j < 4096; j++ {
		k := kind.Canon(freshKey(kind, 900000000+j))
		if _, dup := m.Get(k); !dup {
			absent = append(absent, k)
		}
	}
	var wg sync.WaitGroup
	errs := make([]error, g)
	start := make(chan struct{})
	for i := 0; i < g; i++ {
		wg.Add(1)
		go func(i int) {
			defer wg.Done()
			defer func() {
				if r := recover(); r != nil && errs[i] == nil {
					errs[i] = fmt.Errorf("goroutine %d (shared quiescent %s tree): a read-only call did not return normally: %v", i, kn, r)
				}
			}()
			<-start
			for n := 0; n < ops; n++ {
				j := (n*7919 + i*31) % len(es)
				switch {
				case n%29 == 0 && len(absent) > 0:
					if _, ok := sub.Search(absent[(n+i)%len(absent)]); ok {
						errs[i] = fmt.Errorf("goroutine %d (shared %s tree), op %d: Search of an absent key reports present", i, kn, n)
						return
					}
				case n%503 == 0:
					if k, v, ok := sub.Maximum(); !ok || !kind.SameKey(k, es[len(es)-1].Raw) || v != es[len(es)-1].V {
						errs[i] = fmt.Errorf("goroutine %d (shared %s tree), op %d: Maximum() = (%s,%d,%v), expected (%s,%d)", i, kn, n, kind.Show(k), v, ok, kind.Show(es[len(es)-1].Raw), es[len(es)-1].V)
						return
					}
				case n%1013 == 0 && kind.HasRange():
					hi := min(j+3, len(es)-1)
					cnt := 0
					bad := false
					sub.Range(es[j].Raw, es[hi].Raw)(func(k []byte, v int) bool {
						if j+cnt > hi || !kind.SameKey(k, es[j+cnt].Raw) || v != es[j+cnt].V {
							bad = true
						}
						cnt++
						return true
					})
					if bad || cnt != hi-j+1 {
						errs[i] = fmt.Errorf("goroutine %d (shared %s tree), op %d: Range(%s,%s) yields %d pairs (wrong=%v), expected the %d stored keys between them", i, kn, n, kind.Show(es[j].Raw), kind.Show(es[hi].Raw), cnt, bad, hi-j+1)
						return
					}
				case n%2011 == 0:
					cnt := 0
					bad := false
					sub.All()(func(k []byte, v int) bool {
						if !kind.SameKey(k, es[cnt].Raw) {
							bad = true
						}
						cnt++
						return cnt < 5 && cnt < len(es)
					})
					if bad {
						errs[i] = fmt.Errorf("goroutine %d (shared %s tree), op %d: All() does not start with the smallest keys", i, kn, n)
						return
					}
				default:
					if v, ok := sub.Search(es[j].Raw); !ok || v != es[j].V {
						errs[i] = fmt.Errorf("goroutine %d (shared %s tree), op %d: Search(%s) = (%d,%v), expected (%d,true)", i, kn, n, kind.Show(es[j].Raw), v, ok, es[j].V)
						return
					}
				}
			}
		}(i)
	}
	close(start)
	wg.Wait()
	for _, e := range errs {
		if e != nil {
			return e
		}
	}
	return nil
}

func hammerTrace(kinds []string, g, nkeys, ops, procs int, msg string) *Trace {
	return &Trace{Property: "C16", Kinds: kinds, Failure: msg, Params: map[string]string{"part": "C-hammer",
		"goroutines": strconv.Itoa(g), "nkeys": strconv.Itoa(nkeys), "ops": strconv.Itoa(ops), "gomaxprocs": strconv.Itoa(procs)}}
}

func replayHammer(tr *Trace) error {
	g, _ := strconv.Atoi(tr.Params["goroutines"])
	nk, _ := strconv.Atoi(tr.Params["nkeys"])
	ops, _ := strconv.Atoi(tr.Params["ops"])
	procs, _ := strconv.Atoi(tr.Params["gomaxprocs"])
	for i := 0; i < 5; i++ { // the failure depends on the schedule: several attempts
		if tr.Params["hover"] == "1" {
			if err := runHoverHammer(tr.Kinds, g, ops/400, procs); err != nil {
				return err
			}
			continue
		}
		if tr.Params["shared"] == "1" {
			if err := runSharedHammer(tr.Kinds[0], g, nk, ops, procs); err != nil {
				return err
			}
			continue
		}
		if err := runHammer(tr.Kinds, g, nk, ops, procs); err != nil {
			return err
		}
	}
	return nil
}

func TestC16Hammer(t *testing.T) {
	noAliasing = true // harness bookkeeping that goroutines must not share
	stats.Property = "C16"
	stats.Rule = "part C (volume): 8..16 goroutines, each with a private tree (numeric, byte-string and compound kinds), run tight loops of lookups, overwrites, failed lookups, short ranges and delete/re-insert pairs in parallel on all processors, millions of operations in total; every result must be what the goroutine's own sequential history says and no call may fault; non-trivial = all goroutines completed their loops"
	ops := 400000
	if *flagTier == "thorough" {
		ops = 2000000
	}
	ops = int(float64(ops) * *flagScale)
	rapid.Check(t, func(rt *rapid.T) {
		g := pick(rt, []int{8, 16, 16}, "goroutines")
		var kinds []string
		if drawInt(rt, 0, 1, "samekind") == 0 {
			kinds = []string{pick(rt, hammerKinds, "hkind")}
		} else {
			for i := 0; i < g; i++ {
				kinds = append(kinds, pick(rt, hammerKinds, "hkind"))
			}
		}
		nkeys := pick(rt, []int{1, 50, 1000}, "hkeys")
		procs := pick(rt, []int{16, 16, 8, 4}, "hprocs")
		shared := drawInt(rt, 0, 2, "shared") == 0
		hover := !shared && drawInt(rt, 0, 1, "hover") == 0
		var err error
		if hover {
			// private trees whose root hovers on the thresholds 16/17, 48/49, 37/36, 12: pool traffic in the big classes
			err = runHoverHammer(kinds, g, ops/400, procs)
		} else if shared {
			// one quiescent tree read by all goroutines (no collation trees: their codec writes scratch state per query)
			kinds = kinds[:1]
			nkeys = max(nkeys, 2)
			err = runSharedHammer(kinds[0], g, nkeys, ops, procs)
		} else {
			err = runHammer(kinds, g, nkeys, ops, procs)
		}
		tr := hammerTrace(kinds, g, nkeys, ops, procs, "")
		if shared {
			tr.Params["shared"] = "1"
		}
		if hover {
			tr.Params["hover"] = "1"
		}
		stats.AddCase(true, tr.Hash()^uint64(g*131+nkeys*7+procs), []string{"part_C_hammer", "hammer_goroutines_" + strconv.Itoa(g), "hammer_shared_" + strconv.FormatBool(shared), "hammer_hover_" + strconv.FormatBool(hover)}, func() any {
			return map[string]any{"part": "C-hammer", "goroutines": g, "kinds": kinds, "keys_per_tree": nkeys, "ops_per_goroutine": ops, "gomaxprocs": procs}
		})
		if err != nil {
			tr.Failure = err.Error()
			failures.addOther(tr)
			rt.Fatalf("C16: %v", err)
		}
	})
}

package harness

// C16: independent trees and concurrent readers are race-free. Built with
// -race. Part A: goroutines with private trees run generated histories at the
// same time (the only shared state is the node pool). Part B: one quiescent
// byte-string / numeric / compound tree is queried by many goroutines.
// Oracle: the race detector stays silent (GORACE=halt_on_error=1 makes the
// process die at the first report; the case in flight was written ahead) and
// every goroutine observes exactly the sequential results.

import (
	"fmt"
	"os"
	"runtime"
	"strconv"
	"sync"
	"sync/atomic"
	"testing"

	"pgregory.net/rapid"
)

var c16Spec = &PropSpec{
	ID: "C16",
	Cfg: Config{Property: "C16", CallUndefined: true, Assert: asserts("insert", "delete", "search", "all", "backward", "min", "max", "size", "range", "prefix", "topk", "bottomk"),
		AuditOps: []string{"scan"}, AuditEvery: 16, ExcludeKF: true, Census: true},
	Mix: withMix(baseMix, func(m *Mix) {
		m.BulkInsert, m.BulkDelete, m.DeleteAll = 6, 6, 2
		m.Range, m.Prefix, m.TopBottom, m.Extremes, m.Scan, m.Size = 1, 1, 1, 1, 1, 1
	}),
	Families:  allFamilies,
	Profiles:  []string{"fan", "fan", "dense", "deep"},
	MinTrees:  1,
	MaxTrees:  3,
	Templates: []string{"fanupdown", "fanupdown", "emptied"},
}

var c16ReadSpec = &PropSpec{
	ID:  "C16",
	Cfg: Config{Property: "C16", Assert: asserts("search", "all", "backward", "min", "max", "size", "range", "prefix", "topk", "bottomk"), ExcludeKF: true},
	Mix: Mix{SearchPresent: 6, SearchAbsent: 6, Range: 4, Prefix: 4, TopBottom: 3, Extremes: 3, Scan: 3, Size: 1},
}

type c16Case struct {
	part    string
	kinds   []string
	ops     []Op // G = goroutine (0 = sequential set-up)
	procs   int
	yieldK  int
	nGorout int
}

func (c *c16Case) trace(msg string) *Trace {
	return &Trace{Property: "C16", Kinds: c.kinds, Ops: c.ops, Failure: msg,
		Params: map[string]string{"part": c.part, "gomaxprocs": strconv.Itoa(c.procs), "yield": strconv.Itoa(c.yieldK), "goroutines": strconv.Itoa(c.nGorout)}}
}

// runC16 executes a case concurrently. It returns the first disagreement with
// the sequential results, the maximal number of goroutines in flight and the
// merged facts.
func runC16(c *c16Case) (error, int, map[string]int) {
	old := runtime.GOMAXPROCS(c.procs)
	defer runtime.GOMAXPROCS(old)

	var kinds []Kind
	for _, kn := range c.kinds {
		kinds = append(kinds, MustKind(kn))
	}
	perG := map[int][]Op{}
	for _, op := range c.ops {
		perG[op.G] = append(perG[op.G], op)
	}

	var shared *Engine
	if c.part == "B" {
		cfg := c16ReadSpec.Cfg
		shared = NewEngine(&cfg, kinds)
		for _, op := range perG[0] {
			if err := shared.Apply(op); err != nil && err != ErrAbort {
				return fmt.Errorf("sequential set-up: %v", err), 0, nil
			}
		}
		for _, s := range shared.slots {
			s.model.Sorted() // warm the model's cache: from now on it is only read
		}
	}

	var wg sync.WaitGroup
	var inflight, maxInflight atomic.Int32
	errs := make([]error, c.nGorout+1)
	facts := make([]map[string]int, c.nGorout+1)
	start := make(chan struct{})
	for g := 1; g <= c.nGorout; g++ {
		wg.Add(1)
		go func(g int) {
			defer wg.Done()
			var eng *Engine
			if c.part == "B" {
				cfg := c16ReadSpec.Cfg
				eng = &Engine{cfg: &cfg, Facts: map[string]int{}}
				for _, s := range shared.slots {
					eng.slots = append(eng.slots, &slot{kind: s.kind, sub: s.sub, model: s.model, deleted: map[string]bool{}})
				}
			} else {
				cfg := c16Spec.Cfg
				var own []Kind
				for _, kn := range c.kinds {
					own = append(own, MustKind(kn)) // private Kind objects (collation kinds carry buffers)
				}
				eng = NewEngine(&cfg, own)
			}
			<-start
			n := inflight.Add(1)
			for {
				m := maxInflight.Load()
				if n <= m || maxInflight.CompareAndSwap(m, n) {
					break
				}
			}
			for i, op := range perG[g] {
				if c.yieldK > 0 && i%c.yieldK == 0 {
					runtime.Gosched()
				}
				if err := eng.Apply(op); err != nil {
					if err != ErrAbort {
						errs[g] = fmt.Errorf("goroutine %d, op %d: %v", g, i, err)
					}
					break
				}
			}
			if errs[g] == nil && c.part == "A" {
				if err := eng.Finish(); err != nil && err != ErrAbort {
					errs[g] = fmt.Errorf("goroutine %d, final audit: %v", g, err)
				}
			}
			inflight.Add(-1)
			facts[g] = eng.Facts
		}(g)
	}
	close(start)
	wg.Wait()
	merged := map[string]int{}
	lostBy, gainedBy := 0, 0
	for g := 1; g <= c.nGorout; g++ {
		l, ga := false, false
		for k, v := range facts[g] {
			merged[k] += v
			if v > 0 && len(k) > 5 && k[:5] == "lost_" {
				l = true
			}
			if v > 0 && len(k) > 7 && k[:7] == "gained_" {
				ga = true
			}
		}
		if l {
			lostBy++
		}
		if ga {
			gainedBy++
		}
	}
	if lostBy >= 2 && gainedBy >= 2 {
		merged["pool_traffic_on_2_goroutines"] = 1
	}
	for g := 1; g <= c.nGorout; g++ {
		if errs[g] != nil {
			return errs[g], int(maxInflight.Load()), merged
		}
	}
	return nil, int(maxInflight.Load()), merged
}

// readBattery lists read-only queries derived from the stored keys.
func readBattery(s *slot) []Op {
	es := s.model.Sorted()
	ops := []Op{{Op: "min"}, {Op: "max"}, {Op: "topk", N: 2}, {Op: "bottomk", N: 2}, {Op: "size"}, {Op: "all"}, {Op: "backward"}}
	if len(es) == 0 {
		return ops
	}
	lo, hi, mid := es[0].Raw, es[len(es)-1].Raw, es[len(es)/2].Raw
	ops = append(ops, Op{Op: "search", K: clone(mid)})
	for _, p := range derivedProbes(s.kind, []*Entry{es[len(es)/2]}, 3) {
		ops = append(ops, Op{Op: "search", K: p})
	}
	if s.kind.HasRange() {
		ops = append(ops, Op{Op: "range", K: clone(lo), K2: clone(hi)}, Op{Op: "range", K: clone(hi), K2: clone(lo)}, Op{Op: "range", K: clone(mid), K2: clone(mid)})
		if s.kind.Family() == "alpha" {
			ops = append(ops, Op{Op: "range", K: clone(lo), K2: []byte{}}, Op{Op: "range", K: clone(mid), K2: []byte{}})
		}
	}
	if s.kind.HasPrefix() {
		ops = append(ops, Op{Op: "prefix", K: clone(mid[:len(mid)/2])}, Op{Op: "prefix", K: append(clone(mid), 'q', 'q')}, Op{Op: "prefix", K: []byte{}})
	}
	return ops
}

func TestC16(t *testing.T) {
	noAliasing = true // harness bookkeeping that goroutines must not share
	stats.Property = "C16"
	replayRegressions(t, "C16")
	stats.Rule = "built with -race. Part A: 2..8 goroutines, each owning 1..3 trees of mixed kinds, re-execute at the same time the histories rapid generated for them (heavy grow/shrink churn through the shared node pool); Part B: one byte-string, numeric or compound tree is built, then 2..8 goroutines run generated read-only query mixes on it. GOMAXPROCS in {1,2,4,16} and Gosched injection points are drawn per case; " +
		"a race report is a violation and every goroutine's results must equal the sequential ones; non-trivial = at least 2 goroutines were in flight at the same time (shared atomic counter) and, in part A, at least two goroutines released and acquired pooled nodes; distinct by trace hash"
	wa := os.Getenv("VERIF_C16_WRITEAHEAD")
	rapid.Check(t, func(rt *rapid.T) {
		c := &c16Case{procs: pick(rt, []int{1, 2, 4, 16}, "procs"), yieldK: pick(rt, []int{0, 1, 3, 17}, "yield"),
			nGorout: drawInt(rt, 2, 8, "goroutines")}
		if drawInt(rt, 0, 2, "part") == 0 {
			c.part = "B"
			spec := *c16Spec
			spec.MinTrees, spec.MaxTrees = 1, 1
			spec.Families = []string{"alpha", "alpha", "unsigned", "signed", "float", "compound"}
			h := newHistory(rt, &spec)
			h.runTemplate(rt)
			for i := drawInt(rt, 1, 40, "build"); i > 0; i-- {
				h.step(rt)
			}
			c.kinds = h.trace.Kinds
			c.ops = append(c.ops, h.trace.Ops...)
			// read-only mixes, drawn against the (now quiescent) tree
			h.spec = c16ReadSpec
			for g := 1; g <= c.nGorout; g++ {
				before := len(h.trace.Ops)
				for i := drawInt(rt, 1, 30, "reads"); i > 0; i-- {
					h.step(rt)
				}
				for _, op := range h.trace.Ops[before:] {
					op.G = g
					c.ops = append(c.ops, op)
				}
				// every reader also runs the same battery of special reads, so that each query path
				// (open-ended / reversed / whole range, prefixes, extremes, TopK/BottomK, scans) is
				// executed by all goroutines at the same time in every case
				for _, op := range readBattery(h.eng.slots[0]) {
					op.G = g
					c.ops = append(c.ops, op)
				}
			}
			if h.failed != nil || h.aborted {
				return // the sequential reference itself failed: not this property's business
			}
		} else {
			c.part = "A"
			for g := 1; g <= c.nGorout; g++ {
				h := newHistory(rt, c16Spec)
				h.runTemplate(rt)
				for i := drawInt(rt, 1, 25, "steps"); i > 0; i-- {
					h.step(rt)
				}
				if h.failed != nil || h.aborted {
					return
				}
				off := len(c.kinds)
				c.kinds = append(c.kinds, h.trace.Kinds...)
				for _, op := range h.trace.Ops {
					op.T += off
					op.G = g
					c.ops = append(c.ops, op)
				}
			}
		}
		if wa != "" {
			_ = c.trace("written ahead of the concurrent execution").Save(wa)
		}
		err, maxIn, facts := runC16(c)
		tr := c.trace("")
		labels := []string{"part_" + c.part, "gomaxprocs_" + strconv.Itoa(c.procs)}
		if maxIn >= 2 {
			labels = append(labels, "overlapped")
		}
		if facts["pool_traffic_on_2_goroutines"] > 0 {
			labels = append(labels, "pool_traffic_on_2_goroutines")
		}
		nt := maxIn >= 2 && (c.part == "B" || facts["pool_traffic_on_2_goroutines"] > 0)
		stats.AddCase(nt, tr.Hash(), labels, func() any {
			b := tr.Brief(nil, 30)
			b["part"], b["goroutines"], b["gomaxprocs"], b["max_in_flight"] = c.part, c.nGorout, c.procs, maxIn
			return b
		})
		if err != nil {
			tr.Failure = err.Error()
			failures.addOther(tr)
			rt.Fatalf("C16: %v", err)
		}
	})
}

func init() {
	customReplays["C16"] = func(tr *Trace) error {
		noAliasing = true
		if tr.Params["part"] == "C-hammer" {
			return replayHammer(tr)
		}
		c := &c16Case{part: tr.Params["part"], kinds: tr.Kinds, ops: tr.Ops}
		c.procs, _ = strconv.Atoi(tr.Params["gomaxprocs"])
		c.yieldK, _ = strconv.Atoi(tr.Params["yield"])
		c.nGorout, _ = strconv.Atoi(tr.Params["goroutines"])
		if c.procs <= 0 {
			c.procs = 4
		}
		for i := 0; i < 20; i++ {
			if err, _, _ := runC16(c); err != nil {
				return err
			}
			c.procs = []int{1, 2, 4, 16}[i%4]
		}
		return nil
	}
}

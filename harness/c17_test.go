package harness

// C17: memory held by a tree is proportional to its content, not its history.
// rapid draws a scenario (kind, key set, operation mix); the scripted loop then
// runs N operations three times and the live heap (after forced collections)
// must not keep growing.

import (
	"fmt"
	"runtime"
	"strconv"
	"sync/atomic"
	"testing"

	"pgregory.net/rapid"
)

func liveHeap() int64 {
	var ms runtime.MemStats
	runtime.GC()
	runtime.GC()
	runtime.ReadMemStats(&ms)
	return int64(ms.HeapAlloc)
}

// freshKey returns the i-th key of an unbounded family of distinct keys of the
// kind (used by the sliding-window mix: constant size, ever new keys).
func freshKey(k Kind, i int) []byte {
	switch kk := k.(type) {
	case *numKind:
		return kk.Canon(rawOf(uint64(i)*2654435761 + 12345))
	case *compoundKind:
		var raw []byte
		for j, f := range kk.fields {
			v := uint64(i)
			if j == 0 && len(kk.fields) > 1 {
				v = uint64(i / 7)
			}
			raw = append(raw, f.Canon(rawOf(v*40503+uint64(j)))...)
		}
		if kk.hasStr {
			raw = append(raw, fmt.Sprintf("record-%07d/%c", i, 'a'+byte(i%3))...)
		}
		return raw
	}
	// byte strings: a long shared segment per record, a leaf and an inner sibling below it
	tails := []string{"a", "b/x", "b/y"}
	return []byte(fmt.Sprintf("%08d/customer-record/%s", i/3, tails[i%3]))
}

type memScenario struct {
	kind Kind
	keys [][]byte
	mix  string
	n    int
}

// memLoop performs n operations of the given mix; i0 is the running op index.
func memLoop(sub Subject, sc *memScenario, absent [][]byte, i0, n int) {
	sink := 0
	consume := func(s Seq, limit int) {
		c := 0
		s(func(k []byte, v int) bool { sink += v; c++; return c < limit })
	}
	for j := 0; j < n; j++ {
		memStep(sub, sc, absent, i0+j, &sink, consume)
	}
	if sink == 42 {
		fmt.Print("")
	}
}

// memStep performs operation number i. A fault of the library is not a statement
// about memory: it is swallowed (and counted) so that the measurement goes on.
func memStep(sub Subject, sc *memScenario, absent [][]byte, i int, sinkp *int, consume func(Seq, int)) {
	defer func() {
		if r := recover(); r != nil {
			memPanics.Add(1)
		}
	}()
	keys := sc.keys
	nk := len(keys)
	sink := 0
	defer func() { *sinkp += sink }()
	{
		k := keys[i%nk]
		mix := sc.mix
		if mix == "m" {
			mix = []string{"q", "o", "c", "w"}[(i/64)%4]
		}
		switch mix {
		case "f": // sliding window of ever fresh keys at constant size
			w := 96
			if i < w {
				sub.Insert(freshKey(sc.kind, i), i)
			} else {
				sub.Delete(freshKey(sc.kind, i-w))
				sub.Insert(freshKey(sc.kind, i), i)
			}
		case "s": // lookups only (hits and misses)
			if i%3 == 2 {
				v, _ := sub.Search(absent[i%len(absent)])
				sink += v
			} else {
				v, _ := sub.Search(k)
				sink += v
			}
		case "i": // sequences and extremes only
			switch i % 7 {
			case 0:
				consume(sub.All(), 16)
			case 1:
				consume(sub.Backward(), 16)
			case 2:
				consume(sub.TopK(5), 5)
			case 3:
				consume(sub.BottomK(5), 5)
			case 4:
				_, v, _ := sub.Minimum()
				sink += v
			case 5:
				if sc.kind.HasRange() || sc.kind.Family() == "collation" {
					consume(sub.Range(k, keys[(i+3)%nk]), 1<<30)
				} else {
					_, v, _ := sub.Maximum()
					sink += v
				}
			case 6:
				if sc.kind.HasPrefix() {
					consume(sub.Prefix(k[:len(k)/2]), 1<<30)
				} else {
					sink += sub.Size()
				}
			}
		case "q":
			switch i % 11 {
			case 0, 1, 2:
				v, _ := sub.Search(k)
				sink += v
			case 3, 4:
				v, _ := sub.Search(absent[i%len(absent)])
				sink += v
			case 5:
				_, v, _ := sub.Minimum()
				sink += v
			case 6:
				_, v, _ := sub.Maximum()
				sink += v
			case 7:
				if sc.kind.HasRange() || sc.kind.Family() == "collation" {
					consume(sub.Range(k, keys[(i+7)%nk]), 8)
				} else {
					consume(sub.All(), 8)
				}
			case 8:
				if sc.kind.HasPrefix() {
					consume(sub.Prefix(k[:len(k)/2]), 8)
				} else {
					consume(sub.Backward(), 8)
				}
			case 9:
				consume(sub.TopK(3), 3)
				consume(sub.BottomK(3), 3)
			case 10:
				sink += sub.Size()
				if i%1001 == 10 {
					consume(sub.All(), 1<<30)
				}
				sub.Delete(absent[i%len(absent)])
			}
		case "o":
			sub.Insert(k, i)
		case "c":
			sub.Delete(k)
			sub.Insert(k, i)
		case "w":
			// waves: delete a run of keys, then put them back
			phase := (i / nk) % 2
			if phase == 0 {
				sub.Delete(k)
			} else {
				sub.Insert(k, i)
			}
		}
	}
}

var memPanics atomic.Int64

// safeDo runs one library call; a fault is counted, not propagated.
func safeDo(f func()) {
	defer func() {
		if r := recover(); r != nil {
			memPanics.Add(1)
		}
	}()
	f()
}

type memResult struct {
	h                      [5]int64
	base, emptied, drained int64
}

func runMemScenario(sc *memScenario) (res memResult, msg string) {
	defer func() {
		if r := recover(); r != nil {
			// the library faulted: not a statement about memory; the scenario is abandoned
			res, msg = memResult{}, ""
			stats.aborted()
		}
	}()
	return runMemScenario1(sc)
}

func runMemScenario1(sc *memScenario) (memResult, string) {
	var res memResult
	k := sc.kind
	// absent probes derived from the key set (not stored)
	probe := NewModel(k)
	for _, key := range sc.keys {
		probe.Put(key, 0)
	}
	var absent [][]byte
	for _, p := range derivedProbes(k, probe.Sorted(), 64) {
		if _, ok := probe.Get(p); !ok {
			absent = append(absent, p)
		}
	}
	if len(absent) == 0 {
		absent = [][]byte{k.Canon(rawOf(0x1234567))}
		if k.IsBytes() {
			absent = [][]byte{[]byte("zzzzzzzzzzzzzzzzzzzzz-absent")}
		}
	}

	res.base = liveHeap()
	sub := NewSubject(k, IntVals)
	for i, key := range sc.keys {
		safeDo(func() { sub.Insert(key, i) })
	}
	memLoop(sub, sc, absent, 0, sc.n/10+len(sc.keys)*2) // warm-up
	for _, key := range sc.keys {                       // restore the full key set after a partial wave
		safeDo(func() { sub.Insert(key, 1) })
	}
	// live heap at 0, N, 2N, 4N and 8N operations
	restore := func() {
		for _, key := range sc.keys {
			safeDo(func() { sub.Insert(key, 1) })
		}
	}
	const kib = 1 << 10
	res.h[0] = liveHeap()
	done := 0
	for i, upto := range []int{1, 2, 4, 8} {
		memLoop(sub, sc, absent, done, upto*sc.n-done)
		done = upto * sc.n
		restore()
		res.h[i+1] = liveHeap()
	}
	grew := 0
	for i := 1; i < len(res.h); i++ {
		if res.h[i]-res.h[i-1] > 256*kib {
			grew++
		}
	}
	total := res.h[4] - res.h[0]
	if total > 1024*kib && grew >= 2 {
		// a one-off allocation shows up in one interval; memory that is kept per operation keeps
		// showing up (an append-only buffer doubles at least once per doubling of the op count)
		return res, fmt.Sprintf("live heap grows with the number of operations: +%d KiB after %d ops, +%d KiB after %d ops, +%d KiB after %d ops, +%d KiB after %d ops (mix %s, %d keys)",
			(res.h[1]-res.h[0])/kib, sc.n, (res.h[2]-res.h[0])/kib, 2*sc.n, (res.h[3]-res.h[0])/kib, 4*sc.n, total/kib, 8*sc.n, sc.mix, len(sc.keys))
	}
	for _, key := range sc.keys {
		safeDo(func() { sub.Delete(key) })
	}
	if sc.mix == "f" || sc.mix == "m" {
		var left [][]byte
		safeDo(func() { sub.All()(func(k []byte, _ int) bool { left = append(left, clone(k)); return true }) })
		for _, k := range left {
			safeDo(func() { sub.Delete(k) })
		}
	}
	if sub.Size() != 0 {
		return res, "" // not this property's business
	}
	over := ""
	for attempt := 0; attempt < 3; attempt++ {
		res.emptied = liveHeap()
		if res.emptied-res.base > 256<<10 {
			over = fmt.Sprintf("the emptied tree retains %d KiB above the pre-construction baseline", (res.emptied-res.base)>>10)
			continue
		}
		over = ""
		break
	}
	if over != "" {
		runtime.KeepAlive(sub)
		return res, over
	}
	// fill and drain: a tree that once held many keys and was emptied again keeps no more than a
	// small constant (retention proportional to the former content would show as megabytes here)
	const fill = 30000
	for i := 0; i < fill; i++ {
		k := freshKey(sc.kind, 10000000+i)
		safeDo(func() { sub.Insert(k, i) })
	}
	for i := 0; i < fill; i++ {
		k := freshKey(sc.kind, 10000000+i)
		safeDo(func() { sub.Delete(k) })
	}
	if sub.Size() == 0 {
		for attempt := 0; attempt < 3; attempt++ {
			res.drained = liveHeap()
			if res.drained-res.base > 256<<10 {
				over = fmt.Sprintf("after holding %d keys and being emptied again the tree retains %d KiB above the pre-construction baseline", fill, (res.drained-res.base)>>10)
				continue
			}
			over = ""
			break
		}
	}
	runtime.KeepAlive(sub)
	if over == "" {
		over = bigValuePhase(sc.kind)
	}
	if over == "" {
		over = bigValueThinningPhase(sc.kind, sc.keys)
	}
	if over == "" {
		over = extremeLeafPhase(sc.kind)
	}
	return res, over
}

// mixedVals: odd ids carry a 64 KiB value, even ids a tiny one.
var mixedVals = ValCodec[[]byte]{Name: "bytes-mixed",
	To: func(id int) []byte {
		n := 16
		if id%2 == 1 {
			n = 64 << 10
		}
		b := make([]byte, n)
		b[0], b[1], b[2], b[3] = byte(id), byte(id>>8), byte(id>>16), byte(id>>24)
		return b
	},
	Back: func(b []byte) int { return int(b[0]) | int(b[1])<<8 | int(b[2])<<16 | int(b[3])<<24 }}

// extremeLeafPhase: 128 groups of four keys below one inner node each (for byte strings behind a
// shared path longer than the inline limit). In every group the smallest - in a second pass the
// largest - key carries a 64 KiB value, the others tiny ones; the tree is walked once more with
// every key and a prefix query, then exactly those big entries are deleted, so that every group's
// node survives with three children. What the tree keeps alive afterwards must be what a tree built
// from the survivors keeps alive: an inner node that still refers to a deleted extreme leaf (a
// remembered minimum for path recovery, a cached extreme) shows as 8 MiB here.
func extremeLeafPhase(kind Kind) string {
	groupKey := func(g, j int) []byte {
		switch kk := kind.(type) {
		case *numKind:
			return kind.Canon(rawOf(uint64(g)<<8 | uint64(0x40+j)))
		case *compoundKind:
			var raw []byte
			for fi, f := range kk.fields {
				v := uint64(g)<<8 | uint64(0x40+j)
				if fi < len(kk.fields)-1 {
					v = 3
				}
				raw = append(raw, f.Canon(rawOf(v))...)
			}
			if kk.hasStr {
				raw = append(raw, fmt.Sprintf("shared-path-segment-%03d/%c", g, 'a'+j)...)
			}
			return raw
		}
		return kind.Canon([]byte(fmt.Sprintf("%03d/shared-path-segment/%c", g, 'a'+j)))
	}
	for _, big := range []int{0, 3} { // the group's smallest, then its largest key carries the big value
		type ent struct {
			k  []byte
			id int
		}
		var all, survivors []ent
		seen := map[string]bool{}
		for g := 0; g < 128; g++ {
			for j := 0; j < 4; j++ {
				k := groupKey(g, j)
				if seen[kind.Ident(k)] {
					return "" // the kind is too narrow for 512 distinct keys
				}
				seen[kind.Ident(k)] = true
				e := ent{k, 2 * (4*g + j)}
				if j == big {
					e.id++
				} else {
					survivors = append(survivors, e)
				}
				all = append(all, e)
			}
		}
		measure := func(build func(sub Subject)) (int64, Subject) {
			base := liveHeap()
			sub := NewSubject(kind, mixedVals)
			build(sub)
			return liveHeap() - base, sub
		}
		refDelta, ref := measure(func(sub Subject) {
			for _, e := range survivors {
				safeDo(func() { sub.Insert(e.k, e.id) })
			}
		})
		if ref.Size() != len(survivors) {
			return ""
		}
		ref = nil
		msg := ""
		for attempt := 0; attempt < 2; attempt++ {
			histDelta, sub := measure(func(sub Subject) {
				for _, e := range all {
					safeDo(func() { sub.Insert(e.k, e.id) })
				}
				for _, e := range all { // walk the tree once more with every key
					safeDo(func() { sub.Insert(e.k, e.id) })
					safeDo(func() { sub.Search(e.k) })
					if kind.HasPrefix() && !(kind.Family() == "collation") {
						safeDo(func() { sub.Prefix(e.k[:len(e.k)-1])(func([]byte, int) bool { return true }) })
					}
				}
				safeDo(func() { sub.Minimum(); sub.Maximum() })
				for _, e := range all {
					if e.id%2 == 1 {
						safeDo(func() { sub.Delete(e.k) })
					}
				}
			})
			if sub.Size() != len(survivors) {
				return ""
			}
			if histDelta > refDelta+refDelta/4+(1<<20) {
				which := "smallest"
				if big == 3 {
					which = "largest"
				}
				msg = fmt.Sprintf("128 groups of four keys, the %s of each with a 64 KiB value; after deleting exactly those the tree keeps %d KiB alive, a tree built from the survivors keeps %d KiB", which, histDelta>>10, refDelta>>10)
				runtime.KeepAlive(sub)
				continue
			}
			runtime.KeepAlive(sub)
			msg = ""
			break
		}
		if msg != "" {
			return msg
		}
	}
	return ""
}

// bigValueThinningPhase: the scenario's own key set (so its shapes: long shared paths, wide nodes)
// is stored with 64 KiB values and then thinned to every fourth key in sorted order, which removes
// the smallest and largest leaves under most inner nodes while the nodes themselves survive. The
// tree may then keep alive what a tree built from the survivors alone keeps alive, plus a margin:
// content, not history.
func bigValueThinningPhase(kind Kind, all [][]byte) string {
	keys := all
	if len(keys) > 384 {
		keys = keys[:384]
	}
	if len(keys) < 8 {
		return ""
	}
	var survivors [][]byte
	for i, k := range keys {
		if i%4 == 1 {
			survivors = append(survivors, k)
		}
	}
	measure := func(build func(sub Subject)) (int64, Subject) {
		base := liveHeap()
		sub := NewSubject(kind, bigVals)
		build(sub)
		return liveHeap() - base, sub
	}
	refDelta, ref := measure(func(sub Subject) {
		for i, k := range survivors {
			safeDo(func() { sub.Insert(k, i) })
		}
	})
	if ref.Size() != len(survivors) {
		return ""
	}
	ref = nil
	msg := ""
	for attempt := 0; attempt < 2; attempt++ {
		histDelta, sub := measure(func(sub Subject) {
			for i, k := range keys {
				safeDo(func() { sub.Insert(k, i) })
			}
			for i, k := range keys { // walk the tree once more with every key (overwrites)
				safeDo(func() { sub.Insert(k, i) })
			}
			for i, k := range keys {
				if i%4 != 1 {
					safeDo(func() { sub.Delete(k) })
				}
			}
		})
		if sub.Size() != len(survivors) {
			return ""
		}
		if histDelta > refDelta+refDelta/4+(1<<20) {
			msg = fmt.Sprintf("%d keys with 64 KiB values were stored and thinned to %d: the tree keeps %d KiB alive, a tree built from the %d survivors alone keeps %d KiB", len(keys), len(survivors), histDelta>>10, len(survivors), refDelta>>10)
			runtime.KeepAlive(sub)
			continue
		}
		runtime.KeepAlive(sub)
		return ""
	}
	return msg
}

// bigVals: values of 64 KiB, so that a handful of entries that outlive their deletion is
// measurable (retention per deleted *entry* is otherwise lost in the noise of small values).
var bigVals = ValCodec[[]byte]{Name: "bytes64k",
	To: func(id int) []byte {
		b := make([]byte, 64<<10)
		b[0], b[1], b[2], b[3] = byte(id), byte(id>>8), byte(id>>16), byte(id>>24)
		return b
	},
	Back: func(b []byte) int { return int(b[0]) | int(b[1])<<8 | int(b[2])<<16 | int(b[3])<<24 }}

// bigValuePhase: up to 512 entries with 64 KiB values are inserted, then all but every 64th (in
// insertion order) are deleted: what the tree keeps alive must be in proportion to the survivors,
// not to what was deleted around them; then the survivors go too and (almost) nothing may remain.
func bigValuePhase(kind Kind) string {
	base := liveHeap()
	sub := NewSubject(kind, bigVals)
	seen := map[string]bool{}
	var keys [][]byte
	for i := 0; len(keys) < 512 && i < 4096; i++ {
		k := kind.Canon(freshKey(kind, 20000000+i))
		if id := kind.Ident(k); !seen[id] {
			seen[id] = true
			keys = append(keys, k)
		}
	}
	for i, k := range keys {
		safeDo(func() { sub.Insert(k, i) })
	}
	survivors := 0
	for i, k := range keys {
		if i%64 == 17 {
			survivors++
			continue
		}
		safeDo(func() { sub.Delete(k) })
	}
	if sub.Size() != survivors {
		return "" // not this property's business
	}
	const val = 64 << 10
	msg := ""
	for attempt := 0; attempt < 3; attempt++ {
		if kept := liveHeap() - base; kept > int64(2*survivors*val+(1<<20)) {
			msg = fmt.Sprintf("%d entries with 64 KiB values were inserted and all but %d deleted again: the tree keeps %d KiB alive (the survivors account for %d KiB)", len(keys), survivors, kept>>10, survivors*val>>10)
			continue
		}
		msg = ""
		break
	}
	if msg != "" {
		runtime.KeepAlive(sub)
		return msg
	}
	for i, k := range keys {
		if i%64 == 17 {
			safeDo(func() { sub.Delete(k) })
		}
	}
	if sub.Size() != 0 {
		return ""
	}
	for attempt := 0; attempt < 3; attempt++ {
		if kept := liveHeap() - base; kept > 256<<10 {
			msg = fmt.Sprintf("after %d entries with 64 KiB values were inserted and all deleted again the emptied tree keeps %d KiB alive", len(keys), kept>>10)
			continue
		}
		msg = ""
		break
	}
	runtime.KeepAlive(sub)
	return msg
}

func memTrace(sc *memScenario, msg string) *Trace {
	tr := &Trace{Property: "C17", Kinds: []string{sc.kind.Name()}, Failure: msg,
		Params: map[string]string{"mix": sc.mix, "n": strconv.Itoa(sc.n)}}
	for i, k := range sc.keys {
		tr.Ops = append(tr.Ops, Op{Op: "insert", K: k, V: i})
	}
	return tr
}

var c17Essential = [][2]string{{"collation", "q"}, {"collation", "s"}, {"collation", "i"}, {"alpha", "c"}, {"unsigned", "c"}, {"signed", "c"},
	{"float", "c"}, {"compound", "c"}, {"collation", "c"}, {"alpha", "s"}, {"alpha", "w"}, {"compound", "m"}, {"alpha", "i"}, {"collation", "o"}, {"alpha", "f"}, {"collation", "f"}, {"compound", "f"}, {"unsigned", "f"},
	{"alpha", "q"}, {"unsigned", "i"}, {"compound", "i"}, {"float", "q"}, {"signed", "i"}, {"compound", "q"}}

func TestC17(t *testing.T) {
	noAliasing = true // the aliasing bookkeeping keeps slices alive: harness memory must not enter the measurement
	var caseNo atomic.Int32
	stats.Property = "C17"
	replayRegressions(t, "C17")
	stats.Rule = "rapid draws a scenario: tree kind, key set (50..2000 keys from the kind's universe) and operation mix (s: lookups only, hits and misses; i: sequences and extremes only; q: every read-only method incl. absent probes and failed deletes; o: overwrites; c: delete/re-insert churn of a fixed key set; f: sliding window of ever fresh keys at constant size; w: grow/shrink waves; m: mixed); the loop runs 8N operations and the live heap after two forced GCs is sampled at 0, N, 2N, 4N and 8N operations (violation: total growth > 1 MiB with growth > 256 KiB in at least two of the four intervals), then all keys are deleted and the tree may retain at most 256 KiB, also after a fill-and-drain with 30 000 further keys; " +
		"non-trivial = the tree was non-empty during the loop and all 8N operations executed; distinct by (kind, mix, key-set hash)"
	n := 100000
	if *flagTier == "thorough" {
		n = 1000000
	}
	n = int(float64(n) * *flagScale)
	rapid.Check(t, func(rt *rapid.T) {
		var kind Kind
		var mix string
		// the essential (family, mix) combinations come first, then free draws
		if i := int(caseNo.Add(1)) - 1; i < len(c17Essential) {
			kind = drawKind(rt, []string{c17Essential[i][0]})
			mix = c17Essential[i][1]
		} else {
			kind = drawKind(rt, append([]string{"collation", "collation"}, allFamilies...))
			mix = pick(rt, []string{"q", "s", "s", "i", "o", "c", "c", "w", "m", "f", "f"}, "mix")
		}
		var profiles []string
		if kind.Family() != "collation" {
			// no giant keys here: 8N operations on 64 KiB keys take minutes and measure memcmp, not retention
			profiles = []string{"dense", "dense", "dense", "fan", "fan", "deep", "nul"}
		}
		u := drawUniverse(rt, kind, profiles)
		want := pick(rt, []int{50, 200, 600, 2000}, "nkeys")
		m := NewModel(kind)
		eng := NewEngine(&Config{ExcludeKF: true}, []Kind{kind})
		tries := 0
		for m.Len() < want && tries < want*4 {
			tries++
			k := kind.Canon(u.draw(rt))
			if ck, ok := kind.(*collKind); ok && ck.ktype == "runes" && !validRunes(k) {
				continue
			}
			eng.slots[0].model = m
			if _, present := m.Get(k); present || eng.kfConflict(eng.slots[0], k) != "" {
				continue
			}
			m.Put(k, 0)
		}
		if m.Len() < 2 {
			m.Put(kind.Canon(rawOf(1)), 0)
			m.Put(kind.Canon(rawOf(2)), 0)
			if kind.IsBytes() {
				m = NewModel(kind)
				m.Put([]byte("a"), 0)
				m.Put([]byte("b"), 0)
			}
		}
		sc := &memScenario{kind: kind, mix: mix, n: n}
		for _, en := range m.Sorted() {
			sc.keys = append(sc.keys, en.Raw)
		}
		res, msg := runMemScenario(sc)
		tr := memTrace(sc, msg)
		labels := []string{"mix_" + mix, "family_" + kind.Family(), kind.Family() + "_x_" + mix}
		stats.AddCase(true, tr.Hash(), labels, func() any {
			return map[string]any{"kind": kind.Name(), "mix": mix, "keys": len(sc.keys), "ops": 8 * n,
				"heap_growth_after_N_KiB": (res.h[1] - res.h[0]) >> 10, "heap_growth_after_8N_KiB": (res.h[4] - res.h[0]) >> 10,
				"retained_when_emptied_KiB": (res.emptied - res.base) >> 10, "retained_after_fill_and_drain_KiB": (res.drained - res.base) >> 10}
		})
		if msg != "" {
			failures.addOther(tr)
			rt.Fatalf("C17: %s on %s", msg, kind.Name())
		}
	})
}

func init() {
	customReplays["C17"] = func(tr *Trace) error {
		noAliasing = true
		k, err := ParseKind(tr.Kinds[0])
		if err != nil {
			return err
		}
		n, _ := strconv.Atoi(tr.Params["n"])
		sc := &memScenario{kind: k, mix: tr.Params["mix"], n: n}
		for _, op := range tr.Ops {
			sc.keys = append(sc.keys, op.K)
		}
		if _, msg := runMemScenario(sc); msg != "" {
			return fmt.Errorf("%s", msg)
		}
		return nil
	}
}

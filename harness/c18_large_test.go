package harness

// C18, second part: large trees under continuous collection. Defects of the
// write-barrier / hidden-pointer kind only bite while the collector is marking a
// heap that takes time to mark, i.e. with many live leaves. A scenario (kind,
// value type, size, seed) is drawn by rapid; the scripted loop then re-files,
// overwrites, deletes and re-inserts values on a tree of 30 000 - 100 000 entries
// with GC percent 1, and every stored value is verified against the id kept in
// the model (content recomputed from the id, finalizer of a stored pointer value
// must not have run).

import (
	"fmt"
	"runtime"
	"runtime/debug"
	"strconv"
	"testing"

	"pgregory.net/rapid"
)

type gcScenario struct {
	kind    Kind
	valType string
	n, ops  int
	seed    uint64
}

func gcKey(k Kind, i int) []byte {
	switch kk := k.(type) {
	case *numKind:
		return kk.Canon(rawOf(uint64(i)*2654435761 + 99))
	case *compoundKind:
		return freshKey(k, i)
	}
	return []byte(fmt.Sprintf("%07d-entry", i))
}

func runGCScenario(sc *gcScenario) string {
	old := debug.SetGCPercent(1)
	defer debug.SetGCPercent(old)
	cfg := &Config{Property: "C18", ValType: sc.valType}
	eng := &Engine{cfg: cfg, Facts: map[string]int{}}
	sub := newSubjectFor(eng, sc.kind)
	ids := make([]int, sc.n) // model: key index -> value id (0 = absent)
	next := 1
	keys := make([][]byte, sc.n)
	for i := range keys {
		keys[i] = gcKey(sc.kind, i)
		if sc.valType == "empty" {
			ids[i] = 0
		}
		sub.Insert(keys[i], next)
		ids[i] = next
		next++
	}
	x := sc.seed | 1
	rnd := func(n int) int {
		x ^= x << 13
		x ^= x >> 7
		x ^= x << 17
		return int((x >> 11) % uint64(n))
	}
	verify := func(when string) string {
		for i, k := range keys {
			v, ok := sub.Search(k)
			if (ids[i] != 0) != ok {
				return fmt.Sprintf("%s: key %s present=%v, expected %v", when, sc.kind.Show(k), ok, ids[i] != 0)
			}
			if ok && sc.valType != "empty" && v != ids[i] {
				return fmt.Sprintf("%s: key %s holds value %d (-1 = content corrupted), expected %d", when, sc.kind.Show(k), v, ids[i])
			}
			if ok && eng.finReg != nil && eng.finReg.finalized(ids[i]) {
				return fmt.Sprintf("%s: the value object %d stored under %s was finalized (collected) while still in the tree", when, ids[i], sc.kind.Show(k))
			}
		}
		return ""
	}
	for op := 0; op < sc.ops; op++ {
		a, b := rnd(sc.n), rnd(sc.n)
		switch rnd(10) {
		case 0, 1, 2, 3: // re-file a's value object under b, then replace a's value
			if ids[a] == 0 || a == b {
				continue
			}
			if sub.Move(keys[a], keys[b]) {
				ids[b] = ids[a]
			}
			sub.Insert(keys[a], next)
			ids[a] = next
			next++
		case 4, 5, 6: // overwrite with a fresh value
			sub.Insert(keys[a], next)
			ids[a] = next
			next++
		case 7: // delete and (sometimes) put back
			if ids[a] != 0 {
				sub.Delete(keys[a])
				ids[a] = 0
			}
			if rnd(2) == 0 {
				sub.Insert(keys[a], next)
				ids[a] = next
				next++
			}
		default:
			if ids[a] != 0 {
				if v, ok := sub.Search(keys[a]); !ok || (sc.valType != "empty" && v != ids[a]) {
					return fmt.Sprintf("op %d: key %s holds (%d,%v), expected (%d,true)", op, sc.kind.Show(keys[a]), v, ok, ids[a])
				}
			}
		}
		if op%50000 == 49999 {
			if msg := verify(fmt.Sprintf("after %d operations", op+1)); msg != "" {
				return msg
			}
		}
	}
	runtime.GC()
	runtime.GC()
	return verify("at the end")
}

func TestC18Large(t *testing.T) {
	stats.Property = "C18"
	stats.Rule = specByID("C18").Rule
	rapid.Check(t, func(rt *rapid.T) {
		sc := &gcScenario{
			kind:    MustKind(pick(rt, []string{"u32", "u64", "i64", "f64", "alpha:string", "alpha:bytes", "coll:und:string", "cmp:u16,u32", "cmp:u8,str"}, "kind")),
			valType: pick(rt, []string{"ptr", "big", "big", "any", "string", "bytes"}, "valtype"),
			n:       pick(rt, []int{30000, 100000}, "n"),
			seed:    rapid.Uint64().Draw(rt, "seed"),
		}
		sc.ops = 3 * sc.n
		if *flagTier == "thorough" {
			sc.ops = 8 * sc.n
		}
		msg := runGCScenario(sc)
		tr := &Trace{Property: "C18", Kinds: []string{sc.kind.Name()}, Variant: sc.valType, Failure: msg,
			Params: map[string]string{"mode": "large", "n": strconv.Itoa(sc.n), "ops": strconv.Itoa(sc.ops), "seed": strconv.FormatUint(sc.seed, 10)}}
		stats.AddCase(true, tr.Hash()^sc.seed, []string{"large_tree_gc", "large_valtype_" + sc.valType}, func() any {
			return map[string]any{"kind": sc.kind.Name(), "value_type": sc.valType, "entries": sc.n, "ops": sc.ops, "mode": "large tree, GC percent 1"}
		})
		if msg != "" {
			failures.addOther(tr)
			rt.Fatalf("C18: %s (%s, value type %s, %d entries)", msg, sc.kind.Name(), sc.valType, sc.n)
		}
	})
}

func init() {
	customReplays["C18"] = func(tr *Trace) error {
		if tr.Params["mode"] != "large" {
			return replayTrace(tr)
		}
		k, err := ParseKind(tr.Kinds[0])
		if err != nil {
			return err
		}
		sc := &gcScenario{kind: k, valType: tr.Variant}
		sc.n, _ = strconv.Atoi(tr.Params["n"])
		sc.ops, _ = strconv.Atoi(tr.Params["ops"])
		sc.seed, _ = strconv.ParseUint(tr.Params["seed"], 10, 64)
		for i := 0; i < 3; i++ { // timing dependent: a few attempts
			if msg := runGCScenario(sc); msg != "" {
				return fmt.Errorf("%s", msg)
			}
		}
		return nil
	}
}

package harness

// Bounded-exhaustive part of the history checks: for the small key universes of
// c11_closure_test.go every reachable tree (state = canonical dump, size
// classes included) is visited breadth-first under insert k / delete k for every
// k of the universe, and in EVERY state the property's own queries are run
// exhaustively over the universe (every key as probe, every ordered pair of keys
// as Range bounds, every prefix of every key, every n for TopK/BottomK, every
// stop position for abandoned sequences). The oracles are the same as in the
// generated histories; a failure is an ordinary replayable trace (path + query).

import (
	"fmt"
	"testing"
)

// closureQueries returns the queries property id runs in one state.
func closureQueries(id string, kind Kind, u closureUniverse, m *Model) []Op {
	var ops []Op
	n := m.Len()
	switch id {
	case "C01", "C08":
		for _, k := range u.keys {
			ops = append(ops, Op{Op: "search", K: k})
			if _, present := m.Get(kind.Canon(k)); !present {
				ops = append(ops, Op{Op: "delete", K: k, Note: "absent"})
			}
		}
		ops = append(ops, Op{Op: "sweep"})
		if id == "C08" {
			ops = append(ops, Op{Op: "scan"})
		}
	case "C02":
		ops = append(ops, Op{Op: "scan"})
	case "C03", "C09":
		if kind.HasRange() {
			bounds := append([][]byte(nil), u.keys...)
			if kind.Family() == "alpha" {
				bounds = append(bounds, []byte{}, []byte("\xff\xff"))
			}
			for _, a := range bounds {
				for _, b := range bounds {
					ops = append(ops, Op{Op: "range", K: a, K2: b})
				}
			}
			ops = append(ops, Op{Op: "rangeaudit"})
		}
		if id == "C09" {
			ops = append(ops, Op{Op: "scan"}, Op{Op: "sweep"}, Op{Op: "extremes"}, Op{Op: "size"})
		}
	case "C04":
		if kind.HasPrefix() {
			seen := map[string]bool{}
			for _, k := range u.keys {
				for l := 0; l <= len(k); l++ {
					p := k[:l]
					if kind.Family() == "collation" && !validRunes(p) {
						continue
					}
					if !seen[string(p)] {
						seen[string(p)] = true
						ops = append(ops, Op{Op: "prefix", K: clone(p)})
					}
				}
				ops = append(ops, Op{Op: "prefix", K: append(clone(k), 'q')})
			}
		}
	case "C05":
		ops = append(ops, Op{Op: "min"}, Op{Op: "max"})
		for k := 0; k <= n+1; k++ {
			ops = append(ops, Op{Op: "topk", N: uint64(k)}, Op{Op: "bottomk", N: uint64(k)})
		}
		for _, k := range []uint64{1 << 31, 1 << 32, 1 << 63, ^uint64(0)} {
			ops = append(ops, Op{Op: "topk", N: k}, Op{Op: "bottomk", N: k})
		}
	case "C06":
		ops = append(ops, Op{Op: "sizecheck"})
	case "C14":
		for _, meth := range []string{"all", "backward", "topk", "bottomk", "prefix", "range"} {
			for stop := -1; stop <= n; stop++ {
				o := Op{Op: "iter", M: meth, Stop: stop, Re: 2, Btw: (stop + 4) % 4, N: uint64(n)}
				switch meth {
				case "prefix":
					if !kind.HasPrefix() || len(u.keys[0]) == 0 {
						continue
					}
					o.K = clone(u.keys[0][:1])
				case "range":
					if !kind.HasRange() {
						continue
					}
					es := m.Sorted()
					if len(es) == 0 {
						continue
					}
					o.K, o.K2 = clone(es[0].Raw), clone(es[len(es)-1].Raw)
				}
				ops = append(ops, o)
				if stop >= 0 && stop < n {
					for _, in := range []int{-1, 1, 2} {
						o2 := o
						o2.Re, o2.Btw, o2.In = 1, 0, in
						ops = append(ops, o2)
					}
				}
			}
		}
	case "C15":
		for _, k := range u.keys {
			ops = append(ops, Op{Op: "search", K: k})
			if _, present := m.Get(kind.Canon(k)); present {
				ops = append(ops, Op{Op: "insert", K: k, V: 7, Note: "overwrite"})
			} else {
				ops = append(ops, Op{Op: "delete", K: k, Note: "absent"})
			}
		}
		ops = append(ops, Op{Op: "min"}, Op{Op: "max"}, Op{Op: "size"}, Op{Op: "all"}, Op{Op: "backward"}, Op{Op: "topk", N: 2}, Op{Op: "bottomk", N: 2})
		if kind.HasRange() {
			ops = append(ops, Op{Op: "range", K: u.keys[0], K2: u.keys[len(u.keys)-1]})
		}
		if kind.HasPrefix() && len(u.keys[0]) > 0 {
			ops = append(ops, Op{Op: "prefix", K: clone(u.keys[0][:1])})
		}
		ops = append(ops, Op{Op: "iter", M: "all", Stop: 1, Re: 1, Btw: 2}, Op{Op: "iter", M: "backward", Stop: 0, Re: 1, Btw: 2})
	}
	return ops
}

func closureApplies(id string, kind Kind) bool {
	switch id {
	case "C03":
		return kind.HasRange()
	case "C04":
		return kind.HasPrefix()
	case "C08":
		return kind.Family() == "collation"
	case "C09":
		return kind.Family() == "compound"
	}
	return true
}

func runClosure(t *testing.T, id string) {
	spec := specByID(id)
	stats.Property = id
	stats.Rule = spec.Rule
	if *flagShard != 0 {
		return
	}
	for _, u := range closureUniverses {
		if u.thorough && *flagTier != "thorough" {
			continue
		}
		kind := MustKind(u.kind)
		if !closureApplies(id, kind) {
			continue
		}
		build := func(path []Op) (*Engine, error) {
			cfg := spec.Cfg
			cfg.AuditEvery = 0
			cfg.AuditOps = nil
			eng := NewEngine(&cfg, []Kind{kind})
			for _, op := range path {
				if err := eng.Apply(op); err != nil {
					return eng, err
				}
			}
			return eng, nil
		}
		fail := func(path []Op, err error) {
			if err == ErrAbort {
				return
			}
			tr := &Trace{Property: id, Kinds: []string{u.kind}, Ops: path, Failure: err.Error()}
			failures.addOther(minimize(tr))
			t.Fatalf("%s closure (%s): %v", id, u.name, err)
		}
		seen := map[string]bool{}
		queue := [][]Op{{}}
		states, queries := 0, 0
		for len(queue) > 0 {
			path := queue[0]
			queue = queue[1:]
			eng, err := build(path)
			if err != nil {
				if err == ErrAbort {
					continue
				}
				fail(path, err)
			}
			dig := shapeDigest(eng, true) + "|" + keySetID(eng.slots[0].model)
			if seen[dig] {
				continue
			}
			seen[dig] = true
			states++
			// the property's queries, exhaustively over the universe, in this state
			for _, q := range closureQueries(id, kind, u, eng.slots[0].model) {
				queries++
				if err := eng.Apply(q); err != nil {
					if err == ErrAbort {
						break
					}
					fail(append(append([]Op(nil), path...), q), err)
				}
			}
			if err := eng.Finish(); err != nil && err != ErrAbort {
				fail(path, err)
			}
			for i, k := range u.keys {
				_, present := eng.slots[0].model.Get(kind.Canon(k))
				op := Op{Op: "insert", K: k, V: 100 + i}
				if present {
					op = Op{Op: "delete", K: k}
				}
				queue = append(queue, append(append([]Op(nil), path...), op))
			}
		}
		stats.AddBulk(queries, queries, "closure_queries_"+u.name)
		stats.Extra["closure_states_"+u.name] = states
		stats.Exhaustive[fmt.Sprintf("closure_%s", u.name)] = true
	}
}

func TestClosureC01(t *testing.T) { runClosure(t, "C01") }
func TestClosureC02(t *testing.T) { runClosure(t, "C02") }
func TestClosureC03(t *testing.T) { runClosure(t, "C03") }
func TestClosureC04(t *testing.T) { runClosure(t, "C04") }
func TestClosureC05(t *testing.T) { runClosure(t, "C05") }
func TestClosureC06(t *testing.T) { runClosure(t, "C06") }
func TestClosureC08(t *testing.T) { runClosure(t, "C08") }
func TestClosureC09(t *testing.T) { runClosure(t, "C09") }
func TestClosureC14(t *testing.T) { runClosure(t, "C14") }
func TestClosureC15(t *testing.T) { runClosure(t, "C15") }

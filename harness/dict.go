package harness

// Source dictionary: the integer and character literals that occur in the
// library's own (non-test) sources. Generators mix them - and values derived from
// them by a few bit operations - into what they draw: numeric key values and
// their encodings' preimages, key and path lengths, alphabet bytes, fan-out
// counts. A comparison against a mistyped constant, a fixed-size buffer, a
// threshold that is off by one are only reachable by inputs that hit the very
// constant; uniform or boundary-biased generation over 2^64 values does not.
// The dictionary only steers generation; every verdict still comes from the
// oracles (native order, reference model).

import (
	"os"
	"path/filepath"
	"reflect"
	"regexp"
	"runtime"
	"sort"
	"strconv"
	"strings"
	"sync"

	art "github.com/Clement-Jean/go-art"
)

var (
	dictOnce  sync.Once
	dictVals  []uint64 // distinct literal values
	dictDir   string
	dictFiles int
)

// librarySourceDir locates the directory of the go-art sources this binary was built from.
func librarySourceDir() string {
	fn := runtime.FuncForPC(reflect.ValueOf(art.VerifPoolAudit).Pointer())
	if fn == nil {
		return ""
	}
	file, _ := fn.FileLine(fn.Entry())
	return filepath.Dir(file)
}

var litRe = regexp.MustCompile(`0[xX][0-9a-fA-F_]+|0[bB][01_]+|\b[0-9][0-9_]*\b|'(\\x[0-9a-fA-F]{2}|\\[0-7]{3}|\\.|[^\\'])'`)

func loadDict() {
	dictOnce.Do(func() {
		dictDir = librarySourceDir()
		if dictDir == "" {
			return
		}
		var files []string
		for _, pat := range []string{"*.go", "*.s", "cmd/go-art/*.go", "cmd/go-art/*.tmpl"} {
			m, _ := filepath.Glob(filepath.Join(dictDir, pat))
			files = append(files, m...)
		}
		seen := map[uint64]bool{}
		for _, f := range files {
			if strings.HasSuffix(f, "_test.go") || strings.HasSuffix(f, "verif_hooks.go") {
				continue
			}
			b, err := os.ReadFile(f)
			if err != nil {
				continue
			}
			dictFiles++
			for _, lit := range litRe.FindAllString(string(b), -1) {
				if lit[0] == '\'' {
					if r, _, _, err := strconv.UnquoteChar(lit[1:len(lit)-1], '\''); err == nil {
						seen[uint64(r)] = true
					}
					continue
				}
				if v, err := strconv.ParseUint(strings.ReplaceAll(lit, "_", ""), 0, 64); err == nil {
					seen[v] = true
				}
			}
		}
		for v := range seen {
			dictVals = append(dictVals, v)
		}
		sort.Slice(dictVals, func(i, j int) bool { return dictVals[i] < dictVals[j] })
	})
}

// dictDerived returns c and what one or two of the operations {not, flip the sign
// bit of the width, negate, +-1, +-2} make of it, truncated to the width.
func dictDerived(c uint64, width int) []uint64 {
	mask := ^uint64(0) >> uint(64-width)
	signb := uint64(1) << uint(width-1)
	ops := []func(uint64) uint64{
		func(x uint64) uint64 { return x },
		func(x uint64) uint64 { return ^x },
		func(x uint64) uint64 { return x ^ signb },
		func(x uint64) uint64 { return -x },
		func(x uint64) uint64 { return x + 1 },
		func(x uint64) uint64 { return x - 1 },
		func(x uint64) uint64 { return x + 2 },
		func(x uint64) uint64 { return x - 2 },
	}
	seen := map[uint64]bool{}
	var out []uint64
	for _, f := range ops {
		for _, g := range ops {
			v := g(f(c)) & mask
			if !seen[v] {
				seen[v] = true
				out = append(out, v)
			}
		}
	}
	return out
}

// dictSmall returns c-1, c, c+1 for the literals lo <= c <= hi, ascending and distinct.
func dictSmall(lo, hi int) []int {
	loadDict()
	seen := map[int]bool{}
	var out []int
	for _, c := range dictVals {
		if c > uint64(hi)+1 {
			continue
		}
		for _, v := range []int{int(c) - 1, int(c), int(c) + 1} {
			if v >= lo && v <= hi && !seen[v] {
				seen[v] = true
				out = append(out, v)
			}
		}
	}
	sort.Ints(out)
	return out
}

package harness

import (
	"bytes"
	"errors"
	"fmt"
	"math"
	"runtime"
	"runtime/debug"
	"sort"
	"strings"
)

// Config selects, per property, which outcomes are asserted and which audits run.
type Config struct {
	Property      string
	Assert        map[string]bool // op kinds whose outcome (incl. normal return) is asserted
	AuditOps      []string        // audits run automatically: sweep, scan, extremes, sizecheck, shape
	AuditEvery    int             // after every n-th op and at the end (0: end only)
	NoClassify    bool            // skip the per-op classification facts that scan the whole model (scale histories)
	ExcludeKF     bool            // inserts that would create a KF1/KF2 pair become searches
	Bracket       bool            // C15: raw-state comparison around calls that must not change the tree
	Twin          bool            // C12: an emptied tree is shadowed by a freshly created one
	Arena         bool            // C13: byte-slice keys are carved out of a caller-owned arena
	Census        bool            // collect node-class census through the hook (classification only)
	CallUndefined bool            // sequence calls whose result has no oracle (carve-outs, collation Range) are still made and consumed
	ValType       string          // value type variant (C18); "" = int
}

func asserts(ops ...string) map[string]bool {
	m := map[string]bool{}
	for _, o := range ops {
		m[o] = true
	}
	return m
}

// ErrAbort marks a case that cannot be continued for a reason that is not this
// property's business (an operation the property does not assert panicked).
var ErrAbort = errors.New("case aborted: non-asserted operation did not return normally")

// Violation is a disagreement between the library and the oracle.
type Violation struct{ Msg string }

func (v *Violation) Error() string { return v.Msg }

func violf(format string, a ...any) error { return &Violation{Msg: fmt.Sprintf(format, a...)} }

type slot struct {
	prevInner  map[uintptr]uint32 // inner node address -> compressed path length (previous census)
	prevSize   int
	wasPresent bool
	kind       Kind
	sub        Subject
	model      *Model
	twin       Subject // C12: fresh tree created when sub became empty
	deleted    map[string]bool
	census     [4]int // node classes currently in the tree (when cfg.Census)
	arena      *arenaSubject
	lastSz     int
}

// Engine interprets concrete ops on the real trees and on the reference models.
type Engine struct {
	AuditPhase int // shifts the periodic audits so that they do not stay aligned with scripted prefixes
	cfg        *Config
	slots      []*slot
	nOps       int
	Facts      map[string]int
	mkSub      func(Kind) Subject
	finReg     *finRegistry
	mutLog     []Op // C15: the mutating ops applied so far
}

func NewEngine(cfg *Config, kinds []Kind) *Engine {
	e := &Engine{cfg: cfg, Facts: map[string]int{}}
	e.mkSub = func(k Kind) Subject { return newSubjectFor(e, k) }
	for _, k := range kinds {
		s := &slot{kind: k, model: NewModel(k), deleted: map[string]bool{}}
		s.sub = e.mkSub(k)
		if a, ok := s.sub.(*arenaSubject); ok {
			s.arena = a
		}
		e.slots = append(e.slots, s)
	}
	return e
}

func (e *Engine) Kinds() []Kind {
	var ks []Kind
	for _, s := range e.slots {
		ks = append(ks, s.kind)
	}
	return ks
}

func (e *Engine) Model(i int) *Model { return e.slots[i].model }
func (e *Engine) Sub(i int) Subject  { return e.slots[i].sub }

func (e *Engine) fact(name string) { e.Facts[name]++ }

// call runs f and converts a panic into an error string.
func call(f func()) (panicked string) {
	defer func() {
		if r := recover(); r != nil {
			st := string(debug.Stack())
			// keep the first library frame for the message
			line := ""
			for _, l := range strings.Split(st, "\n") {
				if strings.Contains(l, "go-art") || strings.Contains(l, "/repo/") {
					line = strings.TrimSpace(l)
					break
				}
			}
			panicked = fmt.Sprintf("panic: %v [%s]", r, line)
		}
	}()
	f()
	return ""
}

type kv struct {
	k []byte
	v int
}

func collect(s Seq) []kv {
	var out []kv
	s(func(k []byte, v int) bool {
		out = append(out, kv{clone(k), v})
		return true
	})
	return out
}

func (e *Engine) fmtSeq(k Kind, s []kv, max int) string {
	var sb strings.Builder
	sb.WriteString("[")
	for i, x := range s {
		if i >= max {
			fmt.Fprintf(&sb, " …+%d", len(s)-max)
			break
		}
		if i > 0 {
			sb.WriteString(" ")
		}
		fmt.Fprintf(&sb, "%s=%d", k.Show(x.k), x.v)
	}
	sb.WriteString("]")
	return sb.String()
}

func entriesKV(es []*Entry) []kv {
	out := make([]kv, len(es))
	for i, x := range es {
		out[i] = kv{x.Raw, x.V}
	}
	return out
}

func (e *Engine) compareSeq(k Kind, what string, got []kv, want []*Entry) error {
	w := entriesKV(want)
	n := min(len(got), len(w))
	for i := 0; i < n; i++ {
		if !k.SameKey(got[i].k, w[i].k) || got[i].v != w[i].v {
			return violf("%s: element %d is %s=%d, expected %s=%d; got %s expected %s", what, i,
				k.Show(got[i].k), got[i].v, k.Show(w[i].k), w[i].v, e.fmtSeq(k, got, 12), e.fmtSeq(k, w, 12))
		}
	}
	if len(got) != len(w) {
		return violf("%s: yielded %d pairs, expected %d; got %s expected %s", what, len(got), len(w),
			e.fmtSeq(k, got, 12), e.fmtSeq(k, w, 12))
	}
	return nil
}

// kfConflict reports whether storing raw next to the currently stored keys would
// create one of the recorded known-finding classes (KF1 / KF2).
func (e *Engine) kfConflict(s *slot, raw []byte) string {
	switch k := s.kind.(type) {
	case *alphaKind:
		t := append(clone(raw), 0)
		for _, en := range s.model.Sorted() {
			o := append(clone(en.Raw), 0)
			if len(o) != len(t) && (bytes.HasPrefix(t, o) || bytes.HasPrefix(o, t)) {
				return "KF1"
			}
		}
	case *collKind:
		sk := k.SortKey(raw)
		for _, en := range s.model.Sorted() {
			if bytes.Equal(en.Raw, raw) {
				continue
			}
			ok := k.SortKey(en.Raw)
			if bytes.Equal(ok, sk) {
				return "KF2"
			}
			if sign(k.c.Compare(raw, en.Raw)) != sign(bytes.Compare(sk, ok)) {
				return "xtext_inconsistent" // x/text contradicts itself on this pair: not usable as an oracle
			}
		}
	}
	return ""
}

// rangeDefined implements the carve-outs of C03.
func rangeDefined(s *slot, a, b []byte) bool {
	switch k := s.kind.(type) {
	case *collKind:
		return false
	case *numKind:
		if k.class == 'f' {
			fa, fb := k.float(k.Canon(a)), k.float(k.Canon(b))
			if math.IsNaN(fa) || math.IsNaN(fb) {
				return false
			}
			if fa == 0 && fb == 0 && math.Signbit(fa) != math.Signbit(fb) {
				return false
			}
		}
	case *compoundKind:
		an, _ := k.split(a)
		bn, _ := k.split(b)
		for i, f := range k.fields {
			if f.class != 'f' {
				continue
			}
			fa, fb := f.float(f.Canon(an[i])), f.float(f.Canon(bn[i]))
			if math.IsNaN(fa) || math.IsNaN(fb) {
				return false
			}
			if fa == 0 && fb == 0 && math.Signbit(fa) != math.Signbit(fb) {
				return false
			}
		}
	case *rawCmpKind:
		if len(a) == 0 || len(b) == 0 {
			return false // an empty bound is not a key of this codec; the library gives it no stated meaning
		}
	case *alphaKind:
		if len(b) == 0 && len(a) != 0 {
			es := s.model.Sorted()
			if len(es) > 0 && bytes.Compare(a, es[len(es)-1].Raw) > 0 {
				return false // empty end bound with a start above the maximum
			}
		}
	}
	return true
}

func (e *Engine) expectRange(s *slot, a, b []byte) []*Entry {
	es := s.model.Sorted()
	if len(es) == 0 {
		return nil
	}
	if _, isAlpha := s.kind.(*alphaKind); isAlpha && len(b) == 0 {
		b = es[len(es)-1].Raw // empty end bound: up to the largest stored key
	}
	lo, hi := a, b
	if s.kind.Compare(lo, hi) > 0 {
		lo, hi = hi, lo
	}
	var out []*Entry
	for _, en := range es {
		if s.kind.Compare(en.Raw, lo) >= 0 && s.kind.Compare(en.Raw, hi) <= 0 {
			out = append(out, en)
		}
	}
	return out
}

func (e *Engine) expectSeq(s *slot, op Op, method string) (want []*Entry, defined bool) {
	switch method {
	case "all":
		return s.model.Sorted(), true
	case "backward":
		return s.model.Reversed(), true
	case "topk":
		return firstN(s.model.Reversed(), op.N), true
	case "bottomk":
		return firstN(s.model.Sorted(), op.N), true
	case "prefix":
		if !s.kind.HasPrefix() {
			return nil, false
		}
		var out []*Entry
		ck, isColl := s.kind.(*collKind)
		var pk []byte
		if isColl {
			pk = ck.PrimaryKey(op.K)
		}
		for _, en := range s.model.Sorted() {
			if bytes.HasPrefix(en.Raw, op.K) {
				// The library descends along the primary weights of p. A stored key that starts with p
				// but whose primary weights do not start with those of p can be missed: that is
				// contraction text (which C04 leaves out) or known finding KF3 (combining marks that
				// the collator reorders across the end of p). Not asserted, counted.
				if isColl && !bytes.HasPrefix(ck.PrimaryKey(en.Raw), pk) {
					e.fact("excluded_KF3_or_contraction")
					return nil, false
				}
				out = append(out, en)
			}
		}
		return out, true
	case "range":
		if !rangeDefined(s, op.K, op.K2) {
			return nil, false
		}
		return e.expectRange(s, op.K, op.K2), true
	}
	return nil, false
}

func (e *Engine) obtainSeq(sub Subject, op Op, method string) Seq {
	switch method {
	case "all":
		return sub.All()
	case "backward":
		return sub.Backward()
	case "topk":
		return sub.TopK(uint(op.N))
	case "bottomk":
		return sub.BottomK(uint(op.N))
	case "prefix":
		return sub.Prefix(op.K)
	case "range":
		return sub.Range(op.K, op.K2)
	}
	panic("obtainSeq: " + method)
}

func clampN(n uint64) uint64 {
	if ^uint(0) == math.MaxUint32 && n > math.MaxUint32 {
		return math.MaxUint32
	}
	return n
}

// Apply performs one op on the real tree(s) and the model and returns the
// first disagreement (a *Violation), ErrAbort, or nil.
func (e *Engine) Apply(op Op) error {
	if op.T < 0 || op.T >= len(e.slots) {
		return nil
	}
	s := e.slots[op.T]
	if _, raw := s.kind.(*rawCmpKind); raw && (op.Op == "search" || op.Op == "delete") && len(op.K) > 0 && bytes.IndexByte(op.K, 0) < 0 && strings.Contains(op.Note, "unterminated") {
		// an unterminated probe is not a key of this codec, hence absent; it is passed as it is
		// (partial-path probes, re-slices of stored keys)
	} else {
		op.K = s.kind.Canon(op.K)
	}
	if op.K2 != nil {
		op.K2 = s.kind.Canon(op.K2)
	}
	op.N = clampN(op.N)
	e.nOps++
	_, s.wasPresent = s.model.Get(op.K)
	err := e.apply(s, op)
	if err != nil {
		return err
	}
	if e.cfg.Census {
		e.takeCensus(s, op)
	}
	if op.Op == "audit" {
		return e.audit(s, op.T)
	}
	if e.cfg.AuditEvery > 0 && (e.nOps+e.AuditPhase)%e.cfg.AuditEvery == 0 {
		return e.audit(s, op.T)
	}
	return nil
}

// Finish runs the end-of-history audits on every tree.
func (e *Engine) Finish() error {
	if e.cfg.Bracket {
		if err := e.readFreeReplicaCheck(); err != nil {
			return err
		}
	}
	for _, s := range e.slots {
		if s.arena != nil {
			e.Facts["arena_calls"] += s.arena.Calls
			e.Facts["arena_spare_calls"] += s.arena.Spare
		}
	}
	for i, s := range e.slots {
		if err := e.audit(s, i); err != nil {
			return err
		}
	}
	return nil
}

func (e *Engine) audit(s *slot, ti int) error {
	for _, a := range e.cfg.AuditOps {
		if err := e.apply(s, Op{T: ti, Op: a}); err != nil {
			if v, ok := err.(*Violation); ok {
				return violf("audit %s after op #%d: %s", a, e.nOps, v.Msg)
			}
			return err
		}
	}
	return nil
}

func (e *Engine) asserted(op string) bool { return e.cfg.Assert[op] }

// outcome turns a panic of an op into a violation (asserted) or an abort.
func (e *Engine) outcome(opName, what, panicked string) error {
	if panicked == "" {
		return nil
	}
	if e.asserted(opName) {
		return violf("%s did not return normally: %s", what, panicked)
	}
	return ErrAbort
}

func (e *Engine) apply(s *slot, op Op) error {
	k := s.kind
	mutating := false
	switch op.Op {
	case "insert":
		_, present := s.model.Get(op.K)
		mutating = !present
	case "delete":
		_, present := s.model.Get(op.K)
		mutating = present
	case "move":
		mutating = true
	case "audit":
		return nil // the audits themselves run in Apply
	case "gc":
		runtime.GC()
		e.fact("gc")
		if s.model.Len() >= 8 {
			e.fact("gc_with_8")
		}
		return nil
	}

	if op.Op == "insert" && e.cfg.ExcludeKF {
		if _, present := s.model.Get(op.K); !present {
			if kf := e.kfConflict(s, op.K); kf != "" {
				e.fact("excluded_" + kf)
				op = Op{T: op.T, Op: "search", K: op.K, Note: "excluded-" + kf}
				mutating = false
			}
		}
	}
	if _, isRaw := k.(*rawCmpKind); isRaw && (op.Op == "insert" || op.Op == "move") && (len(op.K) == 0 || (op.Op == "move" && len(op.K2) == 0)) {
		e.fact("excluded_empty_key_rawcmp")
		return nil
	}
	if op.Op == "insert" && k.Family() == "collation" {
		if ck := k.(*collKind); ck.ktype == "runes" && !validRunes(op.K) {
			e.fact("excluded_invalid_utf8_runes")
			return nil
		}
	}

	if s.arena != nil {
		s.arena.setNext(op.Off, op.Spare, op.Fill)
	}

	var before *rawState
	if e.cfg.Bracket && !mutating {
		before = takeRaw(s.sub)
	}

	var err error
	switch op.Op {
	case "insert":
		err = e.doInsert(s, op)
	case "delete":
		err = e.doDelete(s, op)
	case "search":
		err = e.doSearch(s, op)
	case "move":
		err = e.doMove(s, op)
	case "min", "max":
		err = e.doExtreme(s, op)
	case "all", "backward", "prefix", "topk", "bottomk", "range":
		err = e.doSeq(s, op)
	case "size":
		err = e.doSize(s, op)
	case "iter":
		err = e.doIter(s, op)
	case "sweep":
		err = e.doSweep(s, op)
	case "scan":
		err = e.doScan(s, op)
	case "extremes":
		if err = e.doExtreme(s, Op{T: op.T, Op: "min"}); err == nil {
			err = e.doExtreme(s, Op{T: op.T, Op: "max"})
		}
	case "topbottom":
		err = e.doTopBottomAudit(s, op)
	case "rangeaudit":
		err = e.doRangeAudit(s, op)
	case "prefixaudit":
		err = e.doPrefixAudit(s, op)
	case "iteraudit":
		err = e.doIterAudit(s, op)
	case "sizecheck":
		err = e.doSizeCheck(s, op)
	case "shape":
		err = e.doShape(s, op)
	case "gccheck":
		err = e.doGCCheck(s, op)
	default:
		return fmt.Errorf("unknown op %q", op.Op)
	}
	if err != nil {
		return err
	}

	if s.arena != nil {
		if msg := s.arena.takeErr(); msg != "" && e.asserted("arena") {
			return violf("%s: %s", showOp(e.Kinds(), op), msg)
		}
	}

	if before != nil {
		after := takeRaw(s.sub)
		if d := before.diff(after, op.Op == "insert"); d != "" {
			return violf("%s changed the tree although it must not: %s", showOp(e.Kinds(), op), d)
		}
		e.fact("bracketed")
		if before.depthOf(s, op) >= 2 {
			e.fact("bracketed_deep")
		}
	}

	if e.cfg.Twin && op.Op == "delete" && s.model.Len() == 0 && mutating {
		s.twin = e.mkSub(k)
		e.fact("twin_created")
	}
	return nil
}

func (e *Engine) doInsert(s *slot, op Op) error {
	_, present := s.model.Get(op.K)
	what := showOp(e.Kinds(), op)
	if p := call(func() { s.sub.Insert(op.K, op.V) }); p != "" {
		return e.outcome("insert", what, p)
	}
	if e.cfg.Bracket {
		e.mutLog = append(e.mutLog, op)
	}
	if s.twin != nil {
		if p := call(func() { s.twin.Insert(op.K, op.V) }); p != "" {
			return e.outcome("insert", what+" (fresh twin)", p)
		}
	}
	id := k2id(s.kind, op.K)
	if s.deleted[id] {
		e.fact("reinsert_after_delete")
	}
	if present {
		e.fact("overwrite")
	} else {
		e.fact("insert_new")
		e.noteInsert(s, op.K)
	}
	s.model.Put(op.K, op.V)
	return nil
}

// noteInsert classifies a new key against the stored ones (C08 / C09 classes).
func (e *Engine) noteInsert(s *slot, raw []byte) {
	if e.cfg.NoClassify {
		return
	}
	switch k := s.kind.(type) {
	case *collKind:
		pk := k.PrimaryKey(raw)
		for _, en := range s.model.Sorted() {
			if bytes.Equal(k.PrimaryKey(en.Raw), pk) {
				e.fact("equal_primary_pair")
				break
			}
		}
		if k.cfg != "und" {
			e.fact("nondefault_collator")
		}
	case *compoundKind:
		if len(k.fields)+b2i(k.hasStr) >= 2 {
			e.fact("multi_field")
			w := 8
			if len(k.fields) == 0 {
				return
			}
			for _, en := range s.model.Sorted() {
				if bytes.Equal(en.Raw[:w], raw[:w]) && !bytes.Equal(en.Raw, raw) {
					e.fact("same_first_field_pair")
					break
				}
			}
		}
	}
}

func b2i(b bool) int {
	if b {
		return 1
	}
	return 0
}

func k2id(k Kind, raw []byte) string { return k.Ident(raw) }

func (e *Engine) doDelete(s *slot, op Op) error {
	what := showOp(e.Kinds(), op)
	var got bool
	if p := call(func() { got = s.sub.Delete(op.K) }); p != "" {
		return e.outcome("delete", what, p)
	}
	if e.cfg.Bracket {
		e.mutLog = append(e.mutLog, op)
	}
	_, present := s.model.Get(op.K)
	if present {
		e.fact("delete_present")
		s.deleted[k2id(s.kind, op.K)] = true
	} else {
		e.fact("delete_absent")
		e.noteAbsent(s, op.K)
	}
	want := s.model.Delete(op.K)
	if e.asserted("delete") && got != want {
		return violf("%s returned %v, expected %v", what, got, want)
	}
	if s.twin != nil {
		var tg bool
		if p := call(func() { tg = s.twin.Delete(op.K) }); p != "" {
			return e.outcome("delete", what+" (fresh twin)", p)
		}
		if e.asserted("twin") && tg != got {
			return violf("%s returned %v on the emptied tree but %v on a fresh tree", what, got, tg)
		}
	}
	return nil
}

// noteAbsent classifies an absent probe.
func (e *Engine) noteAbsent(s *slot, raw []byte) {
	if e.cfg.NoClassify {
		return
	}
	es := s.model.Sorted()
	if len(es) < 2 {
		return
	}
	if s.kind.IsBytes() {
		longest := 0
		for _, en := range es {
			n := 0
			for n < len(raw) && n < len(en.Raw) && raw[n] == en.Raw[n] {
				n++
			}
			longest = max(longest, n)
			if n == len(raw) && len(raw) < len(en.Raw) {
				e.fact("absent_proper_prefix_of_stored")
			}
		}
		if longest >= 1 {
			e.fact("absent_shares_prefix")
		}
		if longest > 10 {
			e.fact("absent_shares_prefix_gt10")
		}
		return
	}
	w := 8
	if nk, ok := s.kind.(*numKind); ok {
		w = nk.width / 8
	}
	c := s.kind.Canon(raw)
	for _, en := range es {
		if len(en.Raw) >= 8 && len(c) >= 8 && en.Raw[8-w] == c[8-w] {
			e.fact("absent_shares_prefix")
			return
		}
	}
}

func (e *Engine) doSearch(s *slot, op Op) error {
	what := showOp(e.Kinds(), op)
	var gv int
	var gok bool
	if p := call(func() { gv, gok = s.sub.Search(op.K) }); p != "" {
		return e.outcome("search", what, p)
	}
	en, present := s.model.Get(op.K)
	if present {
		e.fact("search_present")
	} else {
		e.fact("search_absent")
		e.noteAbsent(s, op.K)
	}
	if s.deleted[k2id(s.kind, op.K)] {
		e.fact("search_after_delete")
	}
	if e.asserted("search") {
		if gok != present {
			return violf("%s reported present=%v, expected %v", what, gok, present)
		}
		if present && gv != en.V {
			return violf("%s returned value %d, expected %d", what, gv, en.V)
		}
	}
	if s.twin != nil && e.asserted("twin") {
		var tv int
		var tok bool
		if p := call(func() { tv, tok = s.twin.Search(op.K) }); p != "" {
			return violf("%s on the fresh twin did not return normally: %s", what, p)
		}
		if tv != gv || tok != gok {
			return violf("%s gives (%d,%v) on the emptied tree but (%d,%v) on a fresh tree", what, gv, gok, tv, tok)
		}
	}
	return nil
}

func (e *Engine) doExtreme(s *slot, op Op) error {
	what := showOp(e.Kinds(), op)
	var gk []byte
	var gv int
	var gok bool
	if p := call(func() {
		if op.Op == "min" {
			gk, gv, gok = s.sub.Minimum()
		} else {
			gk, gv, gok = s.sub.Maximum()
		}
	}); p != "" {
		return e.outcome(op.Op, what, p)
	}
	if s.twin != nil && e.asserted("twin") {
		var tk []byte
		var tv int
		var tok bool
		if p := call(func() {
			if op.Op == "min" {
				tk, tv, tok = s.twin.Minimum()
			} else {
				tk, tv, tok = s.twin.Maximum()
			}
		}); p != "" {
			return violf("%s on the fresh twin did not return normally: %s", what, p)
		}
		if tok != gok || tv != gv || !bytes.Equal(tk, gk) {
			return violf("%s gives (%s,%d,%v) on the emptied tree but (%s,%d,%v) on a fresh tree", what, s.kind.Show(gk), gv, gok, s.kind.Show(tk), tv, tok)
		}
	}
	if !e.asserted(op.Op) {
		return nil
	}
	es := s.model.Sorted()
	if len(es) == 0 {
		e.fact("extreme_on_empty")
		e.fact("extreme_size_0")
		if gok {
			return violf("%s on an empty tree reported %s=%d", what, s.kind.Show(gk), gv)
		}
		return nil
	}
	e.fact("extreme_nonempty")
	if len(es) == 1 {
		e.fact("extreme_size_1")
	} else {
		e.fact("extreme_size_many")
	}
	want := es[0]
	if op.Op == "max" {
		want = es[len(es)-1]
	}
	if !gok {
		return violf("%s reported none on a tree of %d keys", what, len(es))
	}
	if !s.kind.SameKey(gk, want.Raw) || gv != want.V {
		return violf("%s returned %s=%d, expected %s=%d", what, s.kind.Show(gk), gv, s.kind.Show(want.Raw), want.V)
	}
	return nil
}

func (e *Engine) doSeq(s *slot, op Op) error {
	what := showOp(e.Kinds(), op)
	if op.Op == "prefix" && !s.kind.HasPrefix() {
		return nil
	}
	want, defined := e.expectSeq(s, op, op.Op)
	if !defined {
		e.fact("carved_out_" + op.Op)
		if e.cfg.CallUndefined && (op.Op == "range" || op.Op == "prefix") {
			// no oracle for the result, but the call itself still has to respect the other
			// properties (caller memory, tree untouched, no leak): make it and consume it
			if p := call(func() { collect(e.obtainSeq(s.sub, op, op.Op)) }); p != "" {
				return ErrAbort
			}
			e.fact("called_without_oracle_" + op.Op)
		}
		return nil
	}
	var got, again []kv
	if p := call(func() {
		seq := e.obtainSeq(s.sub, op, op.Op)
		got = collect(seq)
		again = collect(seq) // the returned sequence describes the result, not one consumption of it
	}); p != "" {
		return e.outcome(op.Op, what, p)
	}
	e.noteSeq(s, op, want)
	if e.asserted(op.Op) {
		if err := e.compareSeq(s.kind, what, got, want); err != nil {
			return err
		}
		if err := e.compareSeq(s.kind, what+" (second pass over the same sequence)", again, want); err != nil {
			return err
		}
	}
	if s.twin != nil && e.asserted("twin") {
		var tg []kv
		if p := call(func() { tg = collect(e.obtainSeq(s.twin, op, op.Op)) }); p != "" {
			return violf("%s on the fresh twin did not return normally: %s", what, p)
		}
		if e.fmtSeq(s.kind, tg, 1<<30) != e.fmtSeq(s.kind, got, 1<<30) {
			return violf("%s differs between the emptied tree %s and a fresh tree %s", what, e.fmtSeq(s.kind, got, 12), e.fmtSeq(s.kind, tg, 12))
		}
	}
	return nil
}

func (e *Engine) noteSeq(s *slot, op Op, want []*Entry) {
	n := s.model.Len()
	switch op.Op {
	case "range":
		e.fact("range")
		if n == 0 {
			e.fact("range_empty_tree")
		}
		if len(want) > 0 && len(want) < n {
			e.fact("range_proper_subset")
			if n >= 4 {
				e.fact("range_nontrivial")
			}
		}
		if _, ok := s.model.Get(op.K); !ok {
			e.fact("range_bound_absent")
		}
		if s.kind.Compare(op.K, op.K2) > 0 && !(s.kind.Family() == "alpha" && len(op.K2) == 0) {
			e.fact("range_reversed")
		}
		if s.kind.IsBytes() && lcp(op.K, op.K2) > 10 {
			e.fact("range_bounds_lcp_gt10")
		}
	case "prefix":
		e.fact("prefix")
		if len(want) > 0 && len(want) < n {
			e.fact("prefix_proper_subset")
		}
		if len(want) == 0 {
			e.fact("prefix_no_match")
		}
		if len(op.K) > 10 {
			e.fact("prefix_arg_gt10")
		}
	case "topk", "bottomk":
		e.fact(op.Op)
		if op.N == 0 {
			e.fact("k_zero")
		}
		if op.N > uint64(n) {
			e.fact("k_gt_size")
		}
		if op.N > 0 && op.N < uint64(n) {
			e.fact("k_lt_size")
		}
	}
}

func sign(x int) int {
	switch {
	case x < 0:
		return -1
	case x > 0:
		return 1
	}
	return 0
}

func lcp(a, b []byte) int {
	n := 0
	for n < len(a) && n < len(b) && a[n] == b[n] {
		n++
	}
	return n
}

func (e *Engine) doSize(s *slot, op Op) error {
	var got int
	if p := call(func() { got = s.sub.Size() }); p != "" {
		return e.outcome("size", "size()", p)
	}
	if e.asserted("size") && got != s.model.Len() {
		return violf("Size() = %d, expected %d", got, s.model.Len())
	}
	return nil
}

// doSweep (C01): every stored key is found with its value and a set of absent
// probes derived from the stored keys is reported absent.
func (e *Engine) doSweep(s *slot, op Op) error {
	es := s.model.Sorted()
	for _, en := range es {
		if err := e.doSearch(s, Op{T: op.T, Op: "search", K: en.Raw}); err != nil {
			return err
		}
	}
	probes := derivedProbes(s.kind, es, 400)
	for _, p := range probes {
		if _, ok := s.model.Get(p); ok {
			continue
		}
		if err := e.doSearch(s, Op{T: op.T, Op: "search", K: p, Note: "derived"}); err != nil {
			return err
		}
	}
	e.fact("sweep")
	return nil
}

// derivedProbes builds, deterministically from the stored keys, probes that are
// close to them: truncations, extensions and single-byte changes.
func derivedProbes(k Kind, es []*Entry, limit int) [][]byte {
	var out [][]byte
	seen := map[string]bool{}
	add := func(b []byte) {
		if len(out) >= limit {
			return
		}
		c := k.Canon(b)
		if ck, ok := k.(*collKind); ok && ck.ktype == "runes" && !validRunes(c) {
			return
		}
		if !seen[string(c)] {
			seen[string(c)] = true
			out = append(out, clone(c))
		}
	}
	for _, en := range es {
		r := en.Raw
		switch kk := k.(type) {
		case *alphaKind, *collKind, *rawCmpKind:
			for _, cut := range []int{0, 1, len(r) / 2, 9, 10, 11, len(r) - 1} {
				if cut >= 0 && cut < len(r) {
					add(r[:cut])
				}
			}
			add(append(clone(r), 'a'))
			add(append(clone(r), 0x01))
			if _, isAlpha := k.(*alphaKind); isAlpha {
				add(append(clone(r), 0x00))
				add(append(clone(r), 0xff))
			}
			for _, pos := range []int{0, 5, 9, 10, 11, len(r) - 1} {
				if pos >= 0 && pos < len(r) {
					c := clone(r)
					c[pos] ^= 0x01
					add(c)
				}
			}
		case *numKind:
			b := bitsOf(r)
			add(rawOf(b + 1))
			add(rawOf(b - 1))
			for sh := 0; sh < kk.width; sh += 8 {
				add(rawOf(b ^ (1 << uint(sh))))
				add(rawOf(b ^ (0x80 << uint(sh))))
			}
		case *compoundKind:
			for i := range kk.fields {
				c := clone(r)
				c[i*8+7] ^= 1
				add(c)
				c = clone(r)
				c[i*8+7-((kk.fields[i].width/8)-1)] ^= 0x80
				add(c)
			}
			if kk.hasStr {
				if len(r) > len(kk.fields)*8 {
					add(r[:len(r)-1])
				}
				add(append(clone(r), 'a'))
			}
		}
	}
	return out
}

// doScan (C02): All() is the sorted model, Backward() its reverse.
func (e *Engine) doScan(s *slot, op Op) error {
	if err := e.doSeq(s, Op{T: op.T, Op: "all"}); err != nil {
		return err
	}
	if err := e.doSeq(s, Op{T: op.T, Op: "backward"}); err != nil {
		return err
	}
	e.fact("scan")
	if s.model.Len() >= 3 {
		e.fact("scan_ge3")
		if e.Facts["delete_present"] > 0 {
			e.fact("scan_ge3_after_delete")
		}
	}
	return nil
}

// doSizeCheck (C06): Size() equals the model cardinality, the number of pairs
// All() yields, and the number of reachable leaves; it moved by exactly the
// expected delta since the previous check.
func (e *Engine) doSizeCheck(s *slot, op Op) error {
	var got int
	if p := call(func() { got = s.sub.Size() }); p != "" {
		return e.outcome("size", "Size()", p)
	}
	want := s.model.Len()
	if got != want {
		return violf("Size() = %d but %d keys are stored (previous Size() was %d)", got, want, s.lastSz)
	}
	var n int
	if p := call(func() { s.sub.All()(func([]byte, int) bool { n++; return true }) }); p != "" {
		return ErrAbort
	}
	if n != got {
		return violf("Size() = %d but All() yields %d pairs", got, n)
	}
	if d := VerifDumpOf(s.sub); d != nil {
		if l := countLeaves(d.Root); l != got {
			return violf("Size() = %d but %d leaves are reachable", got, l)
		}
	}
	s.lastSz = got
	e.fact("sizecheck")
	return nil
}

func (e *Engine) doGCCheck(s *slot, op Op) error {
	if e.finReg == nil {
		return nil
	}
	for _, en := range s.model.Sorted() {
		if e.finReg.finalized(en.V) {
			return violf("value %d of stored key %s was finalized (collected) while still in the tree", en.V, s.kind.Show(en.Raw))
		}
	}
	return nil
}

// sortedFactNames lists facts in a stable order.
func (e *Engine) sortedFactNames() []string {
	var ns []string
	for n := range e.Facts {
		ns = append(ns, n)
	}
	sort.Strings(ns)
	return ns
}

// doTopBottomAudit (C05): TopK/BottomK for n around the current size.
func (e *Engine) doTopBottomAudit(s *slot, op Op) error {
	n := uint64(s.model.Len())
	for _, k := range []uint64{1, n, n + 1, 1 << 31, ^uint64(0)} {
		for _, m := range []string{"topk", "bottomk"} {
			if err := e.doSeq(s, Op{T: op.T, Op: m, N: k}); err != nil {
				return err
			}
		}
	}
	return nil
}

// doRangeAudit (C03): a handful of ranges whose bounds are derived from the
// stored keys (whole span, inner span, reversed, single key, absent neighbours).
func (e *Engine) doRangeAudit(s *slot, op Op) error {
	if !s.kind.HasRange() {
		return nil
	}
	es := s.model.Sorted()
	n := len(es)
	if n == 0 {
		return e.doSeq(s, Op{T: op.T, Op: "range", K: s.kind.Canon(rawOf(1)), K2: s.kind.Canon(rawOf(2)), Note: "audit"})
	}
	pairs := [][2][]byte{{es[0].Raw, es[n-1].Raw}, {es[n/3].Raw, es[2*n/3].Raw}, {es[2*n/3].Raw, es[n/3].Raw}, {es[n/2].Raw, es[n/2].Raw}}
	pr := derivedProbes(s.kind, []*Entry{es[n/3], es[2*n/3]}, 24)
	if len(pr) >= 2 {
		pairs = append(pairs, [2][]byte{pr[0], pr[len(pr)-1]}, [2][]byte{pr[len(pr)/2], es[n-1].Raw}, [2][]byte{es[0].Raw, pr[1]})
	}
	for _, p := range pairs {
		if err := e.doSeq(s, Op{T: op.T, Op: "range", K: clone(p[0]), K2: clone(p[1]), Note: "audit"}); err != nil {
			return err
		}
	}
	return nil
}

// doPrefixAudit (C04): prefixes of a few stored keys, cut at several offsets.
func (e *Engine) doPrefixAudit(s *slot, op Op) error {
	if !s.kind.HasPrefix() {
		return nil
	}
	es := s.model.Sorted()
	n := len(es)
	if n == 0 {
		return e.doSeq(s, Op{T: op.T, Op: "prefix", K: []byte("a"), Note: "audit"})
	}
	for _, i := range []int{0, n / 2, n - 1} {
		k := es[i].Raw
		for _, cut := range []int{1, len(k) / 2, 10, 11, len(k) - 1, len(k)} {
			if cut < 0 || cut > len(k) {
				continue
			}
			p := clone(k[:cut])
			for len(p) > 0 && s.kind.Family() == "collation" && !validRunes(p) {
				p = p[:len(p)-1]
			}
			if err := e.doSeq(s, Op{T: op.T, Op: "prefix", K: p, Note: "audit"}); err != nil {
				return err
			}
		}
	}
	return nil
}

// doIterAudit (C14): every sequence method abandoned midway and re-iterated twice.
func (e *Engine) doIterAudit(s *slot, op Op) error {
	es := s.model.Sorted()
	n := len(es)
	for _, m := range []string{"all", "backward", "topk", "bottomk", "prefix", "range"} {
		o := Op{T: op.T, Op: "iter", M: m, Stop: n / 2, Re: 2, Btw: 3, Pull: 0x2a5 + n, T2: op.T + 1, In: []int{-1, 2}[n%2], N: uint64(n/2 + 1), Note: "audit"}
		switch m {
		case "prefix":
			if !s.kind.HasPrefix() || n == 0 {
				continue
			}
			k := es[n/2].Raw
			o.K = clone(k[:len(k)/2])
			for len(o.K) > 0 && s.kind.Family() == "collation" && !validRunes(o.K) {
				o.K = o.K[:len(o.K)-1]
			}
			o.Stop = 1
		case "range":
			if !(s.kind.HasRange() || s.kind.Family() == "collation") || n == 0 {
				continue
			}
			o.K, o.K2 = clone(es[0].Raw), clone(es[n-1].Raw)
		}
		if err := e.doIter(s, o); err != nil {
			return err
		}
	}
	return nil
}

// readFreeReplicaCheck (C15): a fresh tree that receives only the mutating
// operations of the history (no query was ever run on it) must look and answer
// exactly like the tree on which queries were interleaved.
func (e *Engine) readFreeReplicaCheck() error {
	for ti, s := range e.slots {
		var rep Subject
		if p := call(func() {
			rep = e.mkSub(s.kind)
			for _, op := range e.mutLog {
				if op.T != ti {
					continue
				}
				if op.Op == "insert" {
					rep.Insert(op.K, op.V)
				} else {
					rep.Delete(op.K)
				}
			}
		}); p != "" {
			return ErrAbort
		}
		want := canonicalDump(VerifDumpOf(rep), true)
		got := canonicalDump(VerifDumpOf(s.sub), true)
		if want != got {
			return violf("the tree on which queries were interleaved differs from a replica that saw only the %d mutating operations:\n%s\nvs replica\n%s", len(e.mutLog), got, want)
		}
		obs := func(sub Subject) (string, string) {
			var sb strings.Builder
			p := call(func() {
				k, v, ok := sub.Minimum()
				fmt.Fprintf(&sb, "min=%x,%d,%v;", k, v, ok)
				k, v, ok = sub.Maximum()
				fmt.Fprintf(&sb, "max=%x,%d,%v;size=%d;", k, v, ok, sub.Size())
				fmt.Fprintf(&sb, "all=%s;", e.fmtSeq(s.kind, collect(sub.All()), 1<<30))
				fmt.Fprintf(&sb, "bwd=%s;", e.fmtSeq(s.kind, collect(sub.Backward()), 1<<30))
				fmt.Fprintf(&sb, "top2=%s;bottom2=%s;", e.fmtSeq(s.kind, collect(sub.TopK(2)), 1<<30), e.fmtSeq(s.kind, collect(sub.BottomK(2)), 1<<30))
				es := s.model.Sorted()
				if s.kind.HasRange() && len(es) > 0 {
					fmt.Fprintf(&sb, "range=%s;", e.fmtSeq(s.kind, collect(sub.Range(es[0].Raw, es[len(es)-1].Raw)), 1<<30))
					if s.kind.Family() == "alpha" {
						fmt.Fprintf(&sb, "openrange=%s;", e.fmtSeq(s.kind, collect(sub.Range(es[0].Raw, []byte{})), 1<<30))
					}
				}
				if s.kind.HasPrefix() && len(es) > 0 {
					fmt.Fprintf(&sb, "prefix=%s;", e.fmtSeq(s.kind, collect(sub.Prefix(es[len(es)/2].Raw[:len(es[len(es)/2].Raw)/2])), 1<<30))
				}
				for _, en := range es {
					v, ok := sub.Search(en.Raw)
					fmt.Fprintf(&sb, "%d%v,", v, ok)
				}
			})
			return sb.String(), p
		}
		a, pa := obs(s.sub)
		b, pb := obs(rep)
		if pa != "" || pb != "" {
			if pa != pb {
				return violf("final queries panic on one of {tree with interleaved queries, query-free replica} only: %q vs %q", pa, pb)
			}
			continue
		}
		if a != b {
			return violf("final query results differ between the tree on which queries were interleaved and a replica that saw only the mutating operations:\n%s\nvs replica\n%s", a, b)
		}
		e.fact("readfree_replica_compared")
	}
	return nil
}

// doMove re-files a stored value object under another key without rebuilding it:
// afterwards both keys refer to the same object (and after the source is
// overwritten or deleted only the destination does).
func (e *Engine) doMove(s *slot, op Op) error {
	what := showOp(e.Kinds(), op)
	src, present := s.model.Get(op.K)
	if _, toPresent := s.model.Get(op.K2); !toPresent && e.cfg.ExcludeKF {
		if kf := e.kfConflict(s, op.K2); kf != "" {
			e.fact("excluded_" + kf)
			return nil
		}
	}
	if ck, ok := s.kind.(*collKind); ok && ck.ktype == "runes" && !validRunes(op.K2) {
		return nil
	}
	var got bool
	if p := call(func() { got = s.sub.Move(op.K, op.K2) }); p != "" {
		return e.outcome("insert", what, p)
	}
	if e.asserted("search") && got != present {
		return violf("%s: source reported present=%v, expected %v", what, got, present)
	}
	if present {
		s.model.Put(op.K2, src.V)
		e.fact("moved_value")
	}
	return nil
}

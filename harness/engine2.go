package harness

import (
	"bytes"
	"fmt"
	"iter"
	"runtime"
	"strconv"
	"strings"
	"sync"
	"sync/atomic"

	art "github.com/Clement-Jean/go-art"
)

// ---------------------------------------------------------------------------
// C14: early abandonment and re-iteration of one sequence value

func (e *Engine) doIter(s *slot, op Op) error {
	err := e.doIter1(s, op)
	if _, isViol := err.(*Violation); isViol && !e.asserted("iter") {
		err = nil // consumption pattern only (C15 brackets it); the outcome is C14's business
	}
	if err == nil && op.Btw&2 != 0 {
		err = e.iterQueriesInside(s, op)
		if _, isViol := err.(*Violation); isViol && !(e.asserted("iter") || e.cfg.Bracket) {
			err = nil
		}
	}
	if err == nil && op.Pull != 0 {
		err = e.iterInterleaved(s, op)
		if _, isViol := err.(*Violation); isViol && !(e.asserted("iter") || e.cfg.Bracket) {
			err = nil
		}
	}
	return err
}

// iterInterleaved: two passes are alive at the same time and advance in alternation without
// being nested - the sequence of the op and a full scan of tree T2 (possibly the same tree),
// both turned into pull iterators (iter.Pull2). Each must deliver what it delivers on its own.
func (e *Engine) iterInterleaved(s *slot, op Op) error {
	what := showOp(e.Kinds(), op)
	if op.M == "prefix" && !s.kind.HasPrefix() {
		return nil
	}
	s2 := e.slots[((op.T2%len(e.slots))+len(e.slots))%len(e.slots)]
	m2 := []string{"all", "backward"}[op.Pull&1]
	var refA, refB []kv
	if p := call(func() {
		refA = collect(e.obtainSeq(s.sub, op, op.M))
		refB = collect(e.obtainSeq(s2.sub, Op{}, m2))
	}); p != "" {
		return ErrAbort
	}
	var gotA, gotB []kv
	if p := call(func() {
		nextA, stopA := iter.Pull2(iter.Seq2[[]byte, int](e.obtainSeq(s.sub, op, op.M)))
		defer stopA()
		nextB, stopB := iter.Pull2(iter.Seq2[[]byte, int](e.obtainSeq(s2.sub, Op{}, m2)))
		defer stopB()
		doneA, doneB := false, false
		for i := 0; !(doneA && doneB) && i < 2*(len(refA)+len(refB))+64; i++ {
			useA := (op.Pull>>(1+uint(i%12)))&1 == 0
			if doneA {
				useA = false
			} else if doneB {
				useA = true
			}
			if useA {
				k, v, ok := nextA()
				if !ok {
					doneA = true
					continue
				}
				gotA = append(gotA, kv{clone(k), v})
			} else {
				k, v, ok := nextB()
				if !ok {
					doneB = true
					continue
				}
				gotB = append(gotB, kv{clone(k), v})
			}
		}
	}); p != "" {
		return e.outcome("iter", what+" (interleaved pull iterators)", p)
	}
	if !sameKVs(s.kind, gotA, refA) {
		return violf("%s: pulled in alternation with %s() of tree %d, the pass delivered %s, on its own it yields %s", what, m2, op.T2, e.fmtSeq(s.kind, gotA, 12), e.fmtSeq(s.kind, refA, 12))
	}
	if !sameKVs(s2.kind, gotB, refB) {
		return violf("%s: %s() of tree %d, pulled in alternation with this pass, delivered %s, on its own it yields %s", what, m2, op.T2, e.fmtSeq(s2.kind, gotB, 12), e.fmtSeq(s2.kind, refB, 12))
	}
	e.fact("iter_interleaved")
	if s2 != s {
		e.fact("iter_interleaved_two_trees")
	}
	return nil
}

// iterQueriesInside: read-only calls made from the body of a range loop (the tree is
// unchanged) must not disturb the pass that is under way - the usual
// `for k := range t.All() { t.Search(other) }`. The pass must deliver what an
// undisturbed pass over a fresh sequence delivers.
func (e *Engine) iterQueriesInside(s *slot, op Op) error {
	what := showOp(e.Kinds(), op)
	if op.M == "prefix" && !s.kind.HasPrefix() {
		return nil
	}
	var ref []kv
	if p := call(func() { ref = collect(e.obtainSeq(s.sub, op, op.M)) }); p != "" {
		return ErrAbort
	}
	if len(ref) == 0 {
		return nil
	}
	at := min(max(op.Stop, 0), len(ref)-1)
	var got []kv
	if p := call(func() {
		e.obtainSeq(s.sub, op, op.M)(func(k []byte, v int) bool {
			got = append(got, kv{clone(k), v})
			if len(got) == at+1 || len(got) == len(ref) {
				e.queriesBetween(s)
			}
			return true
		})
	}); p != "" {
		return e.outcome("iter", what+" (read-only calls from inside the loop body)", p)
	}
	if !sameKVs(s.kind, got, ref) {
		return violf("%s: a pass whose loop body made read-only calls on the tree (after elements %d and %d) delivered %s, an undisturbed pass yields %s", what, at+1, len(ref), e.fmtSeq(s.kind, got, 12), e.fmtSeq(s.kind, ref, 12))
	}
	e.fact("iter_queries_inside")
	return nil
}

func (e *Engine) doIter1(s *slot, op Op) error {
	what := showOp(e.Kinds(), op)
	if op.M == "prefix" && !s.kind.HasPrefix() {
		return nil
	}
	if _, defined := e.expectSeq(s, op, op.M); !defined {
		// no oracle for the content (carve-outs, collation Range), but C14 compares the passes with
		// each other only, so the sequence is exercised all the same
		e.fact("iter_without_content_oracle_" + op.M)
		if op.M == "prefix" {
			return nil
		}
	}
	// reference: one complete pass over a freshly obtained sequence value
	var ref []kv
	if p := call(func() { ref = collect(e.obtainSeq(s.sub, op, op.M)) }); p != "" {
		return e.outcome("iter", what+" (reference pass)", p)
	}
	var seq Seq
	if p := call(func() { seq = e.obtainSeq(s.sub, op, op.M) }); p != "" {
		return e.outcome("iter", what, p)
	}
	stop := op.Stop
	if stop >= 0 && stop <= len(ref) {
		// partial pass: accept `stop` elements, refuse the next one
		var got []kv
		late := 0
		stopped := false
		if p := call(func() {
			seq(func(k []byte, v int) bool {
				if stopped {
					late++
					return false
				}
				got = append(got, kv{clone(k), v})
				if len(got) > stop {
					stopped = true
					return false
				}
				return true
			})
		}); p != "" {
			return e.outcome("iter", what+" (abandoned pass)", p)
		}
		if late > 0 {
			return violf("%s: %d further callbacks after the consumer returned false", what, late)
		}
		wantN := min(stop+1, len(ref))
		if len(got) != wantN || !sameKVs(s.kind, got, ref[:wantN]) {
			return violf("%s: abandoned pass delivered %s, expected the first %d of %s", what, e.fmtSeq(s.kind, got, 12), wantN, e.fmtSeq(s.kind, ref, 12))
		}
		e.fact("iter_abandoned")
		if stop > 0 && stop < len(ref)-1 {
			e.fact("iter_abandoned_midway")
		}
	}
	if op.In != 0 && len(ref) > 0 {
		// two consumers at once: while one pass over the sequence value is under way, the same value
		// is ranged over again (the tree is unchanged); each pass must deliver what a pass on its own does
		at := min(max(op.Stop, 0), len(ref)-1)
		var outer, inner []kv
		if p := call(func() {
			seq(func(k []byte, v int) bool {
				outer = append(outer, kv{clone(k), v})
				if len(outer) == at+1 {
					seq(func(k2 []byte, v2 int) bool {
						inner = append(inner, kv{clone(k2), v2})
						return op.In < 0 || len(inner) < op.In
					})
				}
				return true
			})
		}); p != "" {
			return e.outcome("iter", what+" (nested passes)", p)
		}
		wantIn := ref
		if op.In > 0 && op.In < len(ref) {
			wantIn = ref[:op.In]
		}
		if !sameKVs(s.kind, inner, wantIn) {
			return violf("%s: a pass started inside another pass over the same sequence value (after its element %d) delivered %s, expected %s", what, at+1, e.fmtSeq(s.kind, inner, 12), e.fmtSeq(s.kind, wantIn, 12))
		}
		if !sameKVs(s.kind, outer, ref) {
			return violf("%s: a pass during which the same sequence value was ranged over once more (after element %d, inner pass %d) delivered %s, a pass on its own yields %s", what, at+1, op.In, e.fmtSeq(s.kind, outer, 12), e.fmtSeq(s.kind, ref, 12))
		}
		e.fact("iter_nested")
	}
	for r := 0; r < op.Re; r++ {
		if op.Btw&1 != 0 {
			// the tree stays unchanged, but other read-only calls happen before the sequence is used again
			if p := call(func() { e.queriesBetween(s) }); p != "" {
				return ErrAbort
			}
			e.fact("iter_queries_between")
		}
		var got []kv
		if p := call(func() { got = collect(seq) }); p != "" {
			return e.outcome("iter", fmt.Sprintf("%s (complete pass %d)", what, r+1), p)
		}
		if !sameKVs(s.kind, got, ref) {
			return violf("%s: complete pass %d over the same sequence value yielded %s, a fresh sequence yields %s", what, r+1, e.fmtSeq(s.kind, got, 12), e.fmtSeq(s.kind, ref, 12))
		}
	}
	e.fact("iter_" + op.M)
	if len(ref) >= 3 && op.Re >= 2 && stop > 0 && stop < len(ref)-1 {
		e.fact("iter_nontrivial")
		e.fact("iter_nontrivial_" + op.M)
	}
	return nil
}

// queriesBetween runs read-only calls (derived from the stored keys) that leave
// the tree unchanged: lookups of present and absent keys, a failed delete,
// extremes and short scans with other arguments.
func (e *Engine) queriesBetween(s *slot) {
	es := s.model.Sorted()
	var probes [][]byte
	if len(es) > 0 {
		probes = append(probes, es[0].Raw, es[len(es)-1].Raw)
		for _, p := range derivedProbes(s.kind, []*Entry{es[len(es)/2]}, 6) {
			probes = append(probes, p)
		}
	} else {
		probes = append(probes, s.kind.Canon(rawOf(7)))
	}
	for _, p := range probes {
		s.sub.Search(p)
		if _, present := s.model.Get(p); !present {
			s.sub.Delete(p) // absent: a no-op
		}
		if s.kind.HasPrefix() {
			q := p
			for len(q) > 0 && s.kind.Family() == "collation" && !validRunes(q) {
				q = q[:len(q)-1]
			}
			n := 0
			s.sub.Prefix(q)(func([]byte, int) bool { n++; return n < 3 })
		}
		if s.kind.Family() != "collation" || s.model.Len() > 0 {
			n := 0
			s.sub.Range(p, probes[0])(func([]byte, int) bool { n++; return n < 3 })
		}
	}
	s.sub.Minimum()
	s.sub.Maximum()
	n := 0
	s.sub.TopK(2)(func([]byte, int) bool { n++; return true })
	s.sub.BottomK(2)(func([]byte, int) bool { n++; return true })
	s.sub.All()(func([]byte, int) bool { n++; return n < 4 })
}

func sameKVs(k Kind, a, b []kv) bool {
	if len(a) != len(b) {
		return false
	}
	for i := range a {
		if !k.SameKey(a[i].k, b[i].k) || a[i].v != b[i].v {
			return false
		}
	}
	return true
}

// ---------------------------------------------------------------------------
// C13: byte-slice keys carved out of a caller-owned arena

const arenaSize = 256

type arenaSubject struct {
	t     art.Tree[[]byte, int]
	arena []byte
	gen   byte
	off   int
	spare int
	mode  int
	err   string
	owned []ownedBuf // keys the tree may refer to (pass-through codec): kept alive, never reused, checked for writes
	keep  bool
	Calls int
	Spare int // calls that had spare capacity holding live data
}

func (a *arenaSubject) setNext(off, spare, mode int) { a.off, a.spare, a.mode = off, spare, mode }
func (a *arenaSubject) takeErr() string              { e := a.err; a.err = ""; return e }

// fill writes what the caller's buffer holds around the key: a non-zero
// pattern (live data), zeros (a fresh buffer filled by append), or 0xff.
func (a *arenaSubject) fill(mode int) {
	for i := range a.arena {
		switch mode {
		case 1, 2:
			a.arena[i] = 0
		case 3:
			a.arena[i] = 0xff
		default:
			a.arena[i] = 0x80 | (a.gen*37+byte(i)*11)&0x7f
		}
	}
}

// with runs f with the keys placed in the arena, checks that no byte of the
// arena changed, then scribbles over the whole arena.
func (a *arenaSubject) with(keys [][]byte, f func(ks [][]byte)) {
	a.gen++
	a.fill(a.mode)
	pos := a.off
	args := make([][]byte, len(keys))
	fits := true
	for i, k := range keys {
		if pos+len(k)+a.spare+1 > len(a.arena) {
			fits = false
			break
		}
		if a.mode == 2 { // live data before the key, a zero byte right behind it
			for j := 0; j < pos; j++ {
				a.arena[j] = 0x80 | (a.gen*37+byte(j)*11)&0x7f
			}
		}
		copy(a.arena[pos:], k)
		args[i] = a.arena[pos : pos+len(k) : pos+len(k)+a.spare]
		pos += len(k) + a.spare + 1
	}
	if !fits { // too long for the arena: fall back to exact-size private copies
		for i, k := range keys {
			args[i] = clone(k)
		}
		f(args)
		return
	}
	snap := clone(a.arena)
	a.Calls++
	if a.spare > 0 {
		a.Spare++
	}
	f(args)
	if !bytes.Equal(snap, a.arena) && a.err == "" {
		for i := range snap {
			if snap[i] != a.arena[i] {
				a.err = fmt.Sprintf("the call wrote to the caller's buffer: byte %d (key argument occupied [%d,%d), spare capacity %d) changed from %#02x to %#02x",
					i, a.off, a.off+len(keys[0]), a.spare, snap[i], a.arena[i])
				break
			}
		}
	}
	a.checkOwned()
	// the caller now reuses its buffer for something else
	a.gen++
	a.fill(0)
}

type ownedBuf struct{ buf, snap []byte }

// checkOwned: the buffers of inserted keys (kept alive for a pass-through codec) are still what the caller wrote.
func (a *arenaSubject) checkOwned() {
	for _, o := range a.owned {
		if !bytes.Equal(o.buf, o.snap) && a.err == "" {
			for i := range o.buf {
				if o.buf[i] != o.snap[i] {
					a.err = fmt.Sprintf("a call wrote to the buffer of an earlier Insert key argument (%d key bytes + spare capacity %d): byte %d changed from %#02x to %#02x",
						len(o.buf)-(cap(o.buf)-len(o.buf)), cap(o.buf)-len(o.buf), i, o.snap[i], o.buf[i])
					break
				}
			}
		}
	}
}

func (a *arenaSubject) Insert(k []byte, v int) {
	if a.keep {
		// the codec hands the caller's slice to the tree: this key gets a buffer of its own (with spare
		// capacity holding live data) that the caller never touches again
		buf := make([]byte, len(k)+a.spare)
		for i := range buf {
			buf[i] = 0x80 | (byte(len(a.owned))*37+byte(i)*11)&0x7f
		}
		copy(buf, k)
		snap := clone(buf)
		a.Calls++
		if a.spare > 0 {
			a.Spare++
		}
		a.t.Insert(buf[:len(k):len(buf)], v)
		a.owned = append(a.owned, ownedBuf{buf, snap})
		a.checkOwned()
		return
	}
	a.with([][]byte{k}, func(ks [][]byte) { a.t.Insert(ks[0], v) })
}
func (a *arenaSubject) Search(k []byte) (v int, ok bool) {
	a.with([][]byte{k}, func(ks [][]byte) { v, ok = a.t.Search(ks[0]) })
	return
}
func (a *arenaSubject) Delete(k []byte) (ok bool) {
	a.with([][]byte{k}, func(ks [][]byte) { ok = a.t.Delete(ks[0]) })
	return
}
func (a *arenaSubject) Minimum() ([]byte, int, bool) {
	k, v, ok := a.t.Minimum()
	return clone(k), v, ok
}
func (a *arenaSubject) Maximum() ([]byte, int, bool) {
	k, v, ok := a.t.Maximum()
	return clone(k), v, ok
}
func wrapBytes(s func(func([]byte, int) bool)) Seq {
	return func(yield func([]byte, int) bool) {
		s(func(k []byte, v int) bool { return yield(clone(k), v) })
	}
}
func (a *arenaSubject) All() Seq           { return wrapBytes(a.t.All()) }
func (a *arenaSubject) Backward() Seq      { return wrapBytes(a.t.Backward()) }
func (a *arenaSubject) TopK(n uint) Seq    { return wrapBytes(a.t.TopK(n)) }
func (a *arenaSubject) BottomK(n uint) Seq { return wrapBytes(a.t.BottomK(n)) }
func (a *arenaSubject) Prefix(p []byte) Seq {
	// the sequence is obtained and consumed while the caller's buffer is intact
	return func(yield func([]byte, int) bool) {
		a.with([][]byte{p}, func(ks [][]byte) { wrapBytes(a.t.Prefix(ks[0]))(yield) })
	}
}
func (a *arenaSubject) Range(x, y []byte) Seq {
	return func(yield func([]byte, int) bool) {
		a.with([][]byte{x, y}, func(ks [][]byte) { wrapBytes(a.t.Range(ks[0], ks[1]))(yield) })
	}
}
func (a *arenaSubject) Move(from, to []byte) bool {
	v, ok := a.Search(from)
	if ok {
		a.Insert(to, v)
	}
	return ok
}
func (a *arenaSubject) Size() int { return a.t.Size() }
func (a *arenaSubject) Tree() any { return a.t }

func newArenaSubject(k Kind) *arenaSubject {
	a := &arenaSubject{arena: make([]byte, arenaSize)}
	switch kk := k.(type) {
	case *alphaKind:
		a.t = art.NewAlphaSortedTree[[]byte, int]()
	case *collKind:
		if kk.cfg == "und" {
			a.t = art.NewCollationSortedTree[[]byte, int]()
		} else {
			a.t = art.NewCollationSortedTree[[]byte, int](art.WithCollator[[]byte, int](CollatorConfigs[kk.cfg]()))
		}
	case *rawCmpKind:
		a.t = art.NewCompoundTree[[]byte, int](art.AlphabeticalOrderKey[[]byte]{})
		a.keep = true
	default:
		panic("arena subject needs a []byte-keyed kind")
	}
	return a
}

// ---------------------------------------------------------------------------
// value types (C18)

type payload struct {
	id    int
	epoch int64
	check [3]uint64
}

type bigVal struct {
	pad [192]byte
	p   *payload // pointer inside a large struct: the target carries a finalizer
	s   string
}

type finRegistry struct {
	mu    sync.Mutex
	epoch int64
	done  map[int]bool
}

var epochCounter atomic.Int64

func newFinRegistry() *finRegistry {
	return &finRegistry{epoch: epochCounter.Add(1), done: map[int]bool{}}
}

func (r *finRegistry) mark(epoch int64, id int) {
	r.mu.Lock()
	if epoch == r.epoch {
		r.done[id] = true
	}
	r.mu.Unlock()
}

func (r *finRegistry) finalized(id int) bool {
	r.mu.Lock()
	defer r.mu.Unlock()
	return r.done[id]
}

func mkPayload(r *finRegistry, id int) *payload {
	p := &payload{id: id, epoch: r.epoch}
	u := uint64(id)*0x9E3779B97F4A7C15 + 1
	p.check = [3]uint64{u, ^u, u * 31}
	runtime.SetFinalizer(p, func(p *payload) { r.mark(p.epoch, p.id) })
	return p
}

func payloadID(p *payload) int {
	if p == nil {
		return -1
	}
	u := uint64(p.id)*0x9E3779B97F4A7C15 + 1
	if p.check != [3]uint64{u, ^u, u * 31} {
		return -1
	}
	return p.id
}

func mkString(id int) string {
	var sb strings.Builder
	s := strconv.Itoa(id)
	for i := 0; i < 1+id%4; i++ {
		sb.WriteString(s)
		sb.WriteByte('#')
	}
	return sb.String()
}

func stringID(s string) int {
	i := strings.IndexByte(s, '#')
	if i < 0 {
		return -1
	}
	id, err := strconv.Atoi(s[:i])
	if err != nil || mkString(id) != s {
		return -1
	}
	return id
}

func mkBytes(id int) []byte {
	b := make([]byte, 9+id%41)
	for i := range b {
		b[i] = byte(id*7 + i*13)
	}
	b[0], b[1], b[2], b[3] = byte(id), byte(id>>8), byte(id>>16), byte(id>>24)
	return b
}

func bytesID(b []byte) int {
	if len(b) < 9 {
		return -1
	}
	id := int(b[0]) | int(b[1])<<8 | int(b[2])<<16 | int(b[3])<<24
	if !bytes.Equal(mkBytes(id), b) {
		return -1
	}
	return id
}

// ValueTypes lists the value-type variants exercised by C18.
// i32, u8 and arr12 are pointer-free values whose size is not a multiple of the word size: a leaf
// holding them has no padding behind its last field, so a read or write one byte past a field
// lands in the neighbouring heap object (u8 values carry the id modulo 256).
var ValueTypes = []string{"int", "string", "ptr", "bytes", "big", "empty", "any", "i32", "u8", "arr12"}

func newSubjectFor(e *Engine, k Kind) Subject {
	if e.cfg.Arena {
		return newArenaSubject(k)
	}
	switch e.cfg.ValType {
	case "", "int":
		return NewSubject(k, IntVals)
	case "string":
		return NewSubject(k, ValCodec[string]{Name: "string", To: mkString, Back: stringID})
	case "ptr":
		r := e.reg()
		return NewSubject(k, ValCodec[*payload]{Name: "ptr", To: func(id int) *payload { return mkPayload(r, id) }, Back: payloadID})
	case "bytes":
		return NewSubject(k, ValCodec[[]byte]{Name: "bytes", To: mkBytes, Back: bytesID})
	case "big":
		r := e.reg()
		return NewSubject(k, ValCodec[bigVal]{Name: "big",
			To: func(id int) bigVal {
				var v bigVal
				for i := range v.pad {
					v.pad[i] = byte(id + i*3)
				}
				v.p = mkPayload(r, id)
				v.s = mkString(id)
				return v
			},
			Back: func(v bigVal) int {
				id := payloadID(v.p)
				if id < 0 || stringID(v.s) != id {
					return -1
				}
				for i := range v.pad {
					if v.pad[i] != byte(id+i*3) {
						return -1
					}
				}
				return id
			}})
	case "i32":
		return NewSubject(k, ValCodec[int32]{Name: "i32", To: func(id int) int32 { return int32(id) }, Back: func(v int32) int { return int(v) }})
	case "u8":
		return NewSubject(k, ValCodec[uint8]{Name: "u8", To: func(id int) uint8 { return uint8(id) }, Back: func(v uint8) int { return int(v) }})
	case "arr12":
		return NewSubject(k, ValCodec[[3]int32]{Name: "arr12",
			To: func(id int) [3]int32 { return [3]int32{int32(id), int32(id) * 3, ^int32(id)} },
			Back: func(v [3]int32) int {
				if v[1] != v[0]*3 || v[2] != ^v[0] {
					return -1
				}
				return int(v[0])
			}})
	case "empty":
		return NewSubject(k, ValCodec[struct{}]{Name: "empty", To: func(int) struct{} { return struct{}{} }, Back: func(struct{}) int { return 0 }})
	case "any":
		r := e.reg()
		return NewSubject(k, ValCodec[any]{Name: "any",
			To: func(id int) any {
				switch id % 3 {
				case 0:
					return id
				case 1:
					return mkString(id)
				}
				return mkPayload(r, id)
			},
			Back: func(v any) int {
				switch x := v.(type) {
				case int:
					return x
				case string:
					return stringID(x)
				case *payload:
					return payloadID(x)
				}
				return -1
			}})
	}
	panic("unknown value type " + e.cfg.ValType)
}

func (e *Engine) reg() *finRegistry {
	if e.finReg == nil {
		e.finReg = newFinRegistry()
	}
	return e.finReg
}

package harness

// Coverage-guided variants of the history checks (thorough tier): the fuzzer's
// byte string is the bit stream rapid draws from, so the same generators,
// interpreter and oracles run under go's native fuzzing engine.

import (
	"testing"

	"pgregory.net/rapid"
)

func fuzzSpec(f *testing.F, id string) {
	spec := specByID(id)
	stats.Property = id
	stats.Rule = spec.Rule
	// starting corpus: pseudo-random bit streams of several lengths (deterministic)
	x := uint64(0x9E3779B97F4A7C15) ^ *flagSeed
	for i := 0; i < 12; i++ {
		n := 256 << uint(i%5)
		b := make([]byte, n)
		for j := range b {
			x ^= x << 13
			x ^= x >> 7
			x ^= x << 17
			b[j] = byte(x >> 32)
			if j%3 == 0 { // small numbers are what most draws want
				b[j] &= 0x0f
			}
		}
		f.Add(b)
	}
	f.Fuzz(rapid.MakeFuzz(func(t *rapid.T) { RunHistory(t, spec) }))
}

func FuzzC01(f *testing.F) { fuzzSpec(f, "C01") }
func FuzzC02(f *testing.F) { fuzzSpec(f, "C02") }
func FuzzC11(f *testing.F) { fuzzSpec(f, "C11") }
func FuzzC03(f *testing.F) { fuzzSpec(f, "C03") }
func FuzzC04(f *testing.F) { fuzzSpec(f, "C04") }
func FuzzC06(f *testing.F) { fuzzSpec(f, "C06") }
func FuzzC09(f *testing.F) { fuzzSpec(f, "C09") }
func FuzzC12(f *testing.F) { fuzzSpec(f, "C12") }
func FuzzC15(f *testing.F) { fuzzSpec(f, "C15") }

package harness

// Generators: key universes per kind, op drawing, focused templates.
// Every random choice goes through rapid's bit stream.

import (
	"bytes"
	"math"
	"strings"

	"pgregory.net/rapid"
)

func drawInt(t *rapid.T, lo, hi int, label string) int {
	if hi <= lo {
		return lo
	}
	return rapid.IntRange(lo, hi).Draw(t, label)
}

func pick[T any](t *rapid.T, xs []T, label string) T {
	return xs[drawInt(t, 0, len(xs)-1, label)]
}

// weighted draws an index with the given integer weights.
func weighted(t *rapid.T, ws []int, label string) int {
	total := 0
	for _, w := range ws {
		total += w
	}
	x := drawInt(t, 0, total-1, label)
	for i, w := range ws {
		if x < w {
			return i
		}
		x -= w
	}
	return len(ws) - 1
}

// ---------------------------------------------------------------------------
// universes

// universe produces candidate keys (raw form) for one tree of one case.
type universe struct {
	kind    Kind
	profile string
	draw    func(t *rapid.T) []byte
	// fan profile: the window of branch keys for bulk actions
	bulk func(t *rapid.T, n int) [][]byte
	// giant profile: the long stem (scripted shapes around it are built by History.giantMerge)
	stem []byte
}

var boundaryBytes = []byte{0x01, 0x02, 'a', 'b', 0x7e, 0x7f, 0x80, 0x81, 0xfe, 0xff}

func drawAlphabet(t *rapid.T, withNul bool) []byte {
	pool := boundaryBytes
	mask := drawInt(t, 1, 1<<len(pool)-1, "amask")
	var out []byte
	for i, b := range pool {
		if mask&(1<<i) != 0 && len(out) < 5 {
			out = append(out, b)
		}
	}
	if len(out) < 2 {
		if out[0] != pool[0] {
			out = append(out, pool[0])
		} else {
			out = append(out, pool[1])
		}
	}
	if db := dictSmall(1, 255); len(db) > 0 && drawInt(t, 0, 2, "adict") == 0 {
		// a byte value that the library's source mentions (or a neighbour of one)
		b := byte(pick(t, db, "adictb"))
		if !bytes.Contains(out, []byte{b}) {
			out = append(out, b)
		}
	}
	if withNul {
		out = append(out, 0x00)
	}
	return out
}

func stemOf(n int, seed byte) []byte {
	s := make([]byte, n)
	for i := range s {
		s[i] = 'A' + (seed+byte(i)*3)%23
	}
	return s
}

// drawStems draws a family of stems that diverge at interesting offsets.
func drawStems(t *rapid.T) [][]byte {
	n := drawInt(t, 1, 3, "nstems")
	stemLen := pick(t, []int{0, 0, 3, 9, 10, 11, 12, 20, 33, 15, 16, 31, 32, 63, 64, 127, 128, 300}, "stemlen")
	if dl := dictSmall(2, 5000); len(dl) > 0 && drawInt(t, 0, 3, "stemdict") == 0 {
		// key lengths next to a constant of the library's source: the stem leaves 0..2 bytes for the suffix
		stemLen = max(0, pick(t, dl, "stemdictlen")-drawInt(t, 0, 2, "stemdictsuf"))
	}
	base := stemOf(stemLen, byte(drawInt(t, 0, 5, "stemseed")))
	stems := [][]byte{base}
	for len(stems) < n {
		v := clone(base)
		if len(v) == 0 {
			v = stemOf(pick(t, []int{1, 11, 12}, "stemlen2"), 7)
		} else {
			off := pick(t, []int{0, 5, 9, 10, 11, len(v) - 1}, "divoff")
			if off >= len(v) {
				off = len(v) - 1
			}
			v[off] ^= byte(drawInt(t, 1, 3, "divx"))
			if drawInt(t, 0, 3, "cut") == 0 {
				v = v[:off+1]
			}
		}
		stems = append(stems, v)
	}
	return stems
}

func bytesUniverse(t *rapid.T, k Kind, profile string) *universe {
	u := &universe{kind: k, profile: profile}
	switch profile {
	case "dense", "nul":
		alpha := drawAlphabet(t, profile == "nul")
		stems := drawStems(t)
		maxSuffix := drawInt(t, 1, 5, "maxsuf")
		u.draw = func(t *rapid.T) []byte {
			key := clone(pick(t, stems, "stem"))
			n := drawInt(t, 0, maxSuffix, "suflen")
			for i := 0; i < n; i++ {
				key = append(key, pick(t, alpha, "sb"))
			}
			return key
		}
	case "giant":
		// keys around the 8-bit and 16-bit length boundaries (a length or path-length field narrowed
		// "to save space" only shows with such keys)
		l := pick(t, []int{255, 256, 257, 258, 260, 265, 511, 512, 513, 1023, 1024, 1025, 4095, 4096, 4097,
			65535, 65536, 65537, 65538, 65539, 65541, 65544, 65545, 65546, 70000}, "giantlen")
		stem := make([]byte, l)
		for i := range stem {
			stem[i] = 'a' + byte(i%7)
		}
		u.stem = stem
		alt := clone(stem)
		alt[l-3] ^= 1
		tails := [][]byte{nil, []byte("a"), []byte("b"), []byte("ab"), []byte("\x80")}
		u.draw = func(t *rapid.T) []byte {
			base := stem
			switch drawInt(t, 0, 5, "giantbase") {
			case 0:
				base = alt
			case 1:
				base = stem[:l/2]
			}
			return append(clone(base), pick(t, tails, "gianttail")...)
		}
	case "deep":
		if drawInt(t, 0, 3, "chain") == 0 {
			// chain: every key is a prefix of one long pattern, so each stored key hangs off the path
			// of the next longer one and the tree gets as deep as there are keys (fixed-size descent
			// stacks, recursion limits and depth counters of narrow types only show here)
			l := pick(t, []int{50, 130, 260, 600}, "chainlen")
			pat := make([]byte, l)
			for i := range pat {
				pat[i] = "abcab"[i%5] + byte(i/97)
			}
			u.profile = "chain"
			u.draw = func(t *rapid.T) []byte {
				return clone(pat[:drawInt(t, 0, l, "chn")])
			}
			u.bulk = func(t *rapid.T, n int) [][]byte {
				var out [][]byte
				first := drawInt(t, 0, l, "chb0")
				for i := 0; i < n; i++ {
					out = append(out, clone(pat[:(first+i)%(l+1)]))
				}
				return out
			}
			break
		}
		u.draw = func(t *rapid.T) []byte {
			n := drawInt(t, 0, 40, "deeplen")
			key := make([]byte, n)
			for i := range key {
				key[i] = "ab"[drawInt(t, 0, 1, "db")]
			}
			return key
		}
	case "fan":
		stem := stemOf(pick(t, []int{0, 0, 1, 1, 2, 3, 5, 9, 10, 11, 12, 12, 20}, "fanstem"), 3)
		width := pick(t, []int{6, 20, 60, 256}, "fanw")
		start := pick(t, []int{0x01, 0x70, 0xC0, 0x00}, "fanstart")
		if width == 256 {
			start = 0
		}
		if start+width > 256 {
			start = 256 - width
		}
		if start == 0 && width < 256 {
			start = 1
		}
		suffixes := [][]byte{nil, []byte("x"), []byte("y")}
		mk := func(b int, suf []byte) []byte {
			key := append(clone(stem), byte(b))
			return append(key, suf...)
		}
		// two-level fans: under some branch bytes of the wide node (its extremes among them) sits a
		// second wide node with its own window, optionally behind a compressed path
		var mid []byte
		start2, width2 := 0, 0
		if drawInt(t, 0, 2, "fan2") == 0 {
			mid = stemOf(pick(t, []int{0, 0, 0, 1, 3, 10, 11}, "fanmid"), 9)
			width2 = pick(t, []int{6, 20, 60, 256}, "fanw2")
			start2 = pick(t, []int{0x01, 0x30, 0x70, 0xC0, 0xE0}, "fanstart2")
			if start2+width2 > 256 {
				start2 = 256 - width2
			}
			if start2 == 0 { // no 0x00 inside generated fan keys (alpha keys are 0x00-terminated, KF1)
				start2, width2 = 1, min(width2, 255)
			}
			u.profile = "fan2"
		}
		mk2 := func(b1, b2 int, suf []byte) []byte {
			key := append(clone(stem), byte(b1))
			key = append(key, mid...)
			key = append(key, byte(b2))
			return append(key, suf...)
		}
		hub := func(t *rapid.T) int { // branch bytes of the first level that carry a second level
			return start + pick(t, []int{width - 1, width - 1, 0, width / 2, width - 2}, "hub")%width
		}
		u.draw = func(t *rapid.T) []byte {
			if width2 > 0 && drawInt(t, 0, 1, "lvl2") == 0 {
				return mk2(hub(t), start2+drawInt(t, 0, width2-1, "fb2"), pick(t, suffixes, "fs"))
			}
			return mk(start+drawInt(t, 0, width-1, "fb"), pick(t, suffixes, "fs"))
		}
		u.bulk = func(t *rapid.T, n int) [][]byte {
			var out [][]byte
			suf := pick(t, suffixes, "bs")
			step := pick(t, []int{1, 1, 3, 7}, "bstep")
			if width2 > 0 && drawInt(t, 0, 1, "blvl2") == 0 {
				b1 := hub(t)
				first := drawInt(t, 0, width2-1, "b0")
				for i := 0; i < n && i < width2; i++ {
					out = append(out, mk2(b1, start2+(first+i*step)%width2, suf))
				}
				return out
			}
			first := drawInt(t, 0, width-1, "b0")
			for i := 0; i < n && i < width; i++ {
				out = append(out, mk(start+(first+i*step)%width, suf))
			}
			return out
		}
	case "textfan":
		// wide fan-out in a collation tree: one drawn character out of a window of consecutive code
		// points (Han: 3-byte primaries that differ in the last byte; Cyrillic/Greek/Latin: 2-byte primaries)
		stem := pick(t, []string{"", "q", "stem-0123456789"}, "tfstem")
		base := pick(t, []int{0x4E00, 0x4E00, 0x5000, 0x0430, 0x03B1, 'a'}, "tfbase")
		width := pick(t, []int{6, 20, 60, 120}, "tfw")
		if base == 0x0430 || base == 0x03B1 || base == 'a' {
			width = min(width, 24)
		}
		suffixes := []string{"", "x", "y"}
		mk := func(i int, suf string) []byte { return []byte(stem + string(rune(base+i)) + suf) }
		// second level: under the last / first character of the window a second window of characters
		base2, width2 := 0, 0
		if drawInt(t, 0, 2, "tf2") == 0 {
			base2 = pick(t, []int{0x4E00, 0x5200, 0x0430, 'a'}, "tfbase2")
			width2 = pick(t, []int{6, 20, 60}, "tfw2")
			if base2 == 0x0430 || base2 == 'a' {
				width2 = min(width2, 24)
			}
			u.profile = "textfan2"
		}
		mk2 := func(i, j int, suf string) []byte {
			return []byte(stem + string(rune(base+i)) + string(rune(base2+j)) + suf)
		}
		thub := func(t *rapid.T) int { return pick(t, []int{width - 1, width - 1, 0, width / 2}, "thub") }
		u.draw = func(t *rapid.T) []byte {
			if width2 > 0 && drawInt(t, 0, 1, "tlvl2") == 0 {
				return mk2(thub(t), drawInt(t, 0, width2-1, "tfj"), pick(t, suffixes, "tfs"))
			}
			return mk(drawInt(t, 0, width-1, "tfi"), pick(t, suffixes, "tfs"))
		}
		u.bulk = func(t *rapid.T, n int) [][]byte {
			var out [][]byte
			suf := pick(t, suffixes, "tbs")
			if width2 > 0 && drawInt(t, 0, 1, "tblvl2") == 0 {
				i := thub(t)
				first := drawInt(t, 0, width2-1, "tb0")
				for j := 0; j < n && j < width2; j++ {
					out = append(out, mk2(i, (first+j)%width2, suf))
				}
				return out
			}
			first := drawInt(t, 0, width-1, "tb0")
			for i := 0; i < n && i < width; i++ {
				out = append(out, mk((first+i)%width, suf))
			}
			return out
		}
	case "text":
		atoms := textAtoms(t, true)
		stem := ""
		if drawInt(t, 0, 2, "tstem") == 0 {
			stem = strings.Repeat(pick(t, []string{"ab", "é", "漢", "ß"}, "tsa"), drawInt(t, 3, 8, "tsn"))
		}
		u.draw = func(t *rapid.T) []byte {
			var sb strings.Builder
			if drawInt(t, 0, 1, "usestem") == 1 {
				sb.WriteString(stem)
			}
			n := drawInt(t, 0, 4, "natoms")
			for i := 0; i < n; i++ {
				sb.WriteString(pick(t, atoms, "atom"))
			}
			return []byte(sb.String())
		}
	case "plaintext": // no contractions, no ignorables (C04 on collation trees)
		atoms := textAtoms(t, false)
		stem := ""
		if drawInt(t, 0, 2, "tstem") == 0 {
			stem = strings.Repeat(pick(t, []string{"ab", "xyz", "漢"}, "tsa"), drawInt(t, 3, 8, "tsn"))
		}
		u.draw = func(t *rapid.T) []byte {
			var sb strings.Builder
			if drawInt(t, 0, 1, "usestem") == 1 {
				sb.WriteString(stem)
			}
			n := drawInt(t, 0, 5, "natoms")
			for i := 0; i < n; i++ {
				sb.WriteString(pick(t, atoms, "atom"))
			}
			return []byte(sb.String())
		}
	default:
		panic("unknown profile " + profile)
	}
	return u
}

var textPools = [][]string{
	{"a", "A", "á", "Á", "à", "ä", "Ä", "â"},
	{"e", "E", "é", "É", "è", "ê"},
	{"s", "S", "ss", "ß", "SS"},
	{"o", "O", "ö", "Ö", "ø", "z", "Z"},
	{"0", "1", "2", "9", "10", "007", "42"},
	{"漢", "字", "中", "文", "日", "本"},
	{"α", "β", "Α", "ά", "ω"},
	{"а", "б", "Я", "ё"},
	{"😀", "🙂", "ǆ", "ﬁ", "Ａ", "ａ"},
	{"ch", "c", "h", "ll", "l", "ñ", "n"},
	{" ", "-", "_", "."},
	{"か", "カ", "が", "ｶ"},
	// code points at the edges of the UTF-8 encoding lengths and of the code space, the replacement
	// character itself (what a decoder reports for invalid input), format characters
	// canonical-equivalence traps: combining marks that decompose (U+0344, U+0340, U+0341, U+0343), composite
	// Tibetan vowels (U+0F73, U+0F75, U+0F81) next to other vowel signs, singletons (OHM, ANGSTROM, KELVIN),
	// composition exclusions (Devanagari QA, Hebrew presentation form), two marks in both orders, conjoining jamo
	{"З", "з", "и", "у", "Зя", "З\u0344", "з\u0344", "и\u0344", "у\u0344", "\u0344", "\u0308\u0301", "a\u0340", "a\u0341", "a\u0343"},
	{"\u0f40", "\u0f73", "\u0f71\u0f72", "\u0f75", "\u0f71\u0f74", "\u0f81", "\u0f71\u0f80", "\u0f72", "\u0f74", "\u0f80", "\u0f73\u0f72", "\u0f75\u0f74"},
	{"\u2126", "Ω", "\u212b", "Å", "A\u030a", "\u212a", "K", "\u0958", "\u0915\u093c", "\ufb1d", "\u05d9\u05b4",
		"a\u0323\u0302", "a\u0302\u0323", "ậ", "\u1100\u1161", "가", "\u1100\u1161\u11a8", "각"},
	{"\uFFFD", "\u007f", "\u0080", "\u07FF", "\u0800", "\uFFFF", "\U00010000", "\U0010FFFF", "\uFEFF", "\u00AD", "\uD7FF", "\uE000"},
}

var plainPools = [][]string{
	{"a", "b", "c", "x", "y", "z", "m"},
	{"a", "A", "b", "B", "e", "E", "r", "R", "s", "S"},           // case variants (tertiary differences)
	{"e", "é", "è", "E", "É", "o", "ö", "O", "u", "ü", "a", "á"}, // precomposed accents (secondary differences)
	{"漢", "字", "中", "文"},
	{"α", "β", "γ", "ω"},
	{"а", "б", "в", "я"},
	// non-ignorable combining marks of different combining classes, also in non-canonical order
	// (the collator reorders them before weighing): Tibetan vowel signs, Thai vowel + tone mark, Telugu length marks
	{"\u0f40", "\u0f40\u0f74", "\u0f40\u0f74\u0f72", "\u0f40\u0f72\u0f74", "\u0f42\u0f74", "\u0f72", "\u0f74"},
	{"\u0e01", "\u0e01\u0e38", "\u0e01\u0e38\u0e48", "\u0e01\u0e48\u0e38", "\u0e02\u0e48", "\u0e38", "\u0e48"},
	{"\u0c15", "\u0c15\u0c55", "\u0c15\u0c55\u0c56", "\u0c15\u0c56\u0c55", "\u0c16\u0c56"},
}

func textAtoms(t *rapid.T, rich bool) []string {
	pools := plainPools
	if rich {
		pools = textPools
	}
	np := drawInt(t, 1, 3, "npools")
	var atoms []string
	for i := 0; i < np; i++ {
		p := pick(t, pools, "pool")
		atoms = append(atoms, p...)
	}
	return atoms
}

// numeric universes -----------------------------------------------------------

var floatSpecials64 = []uint64{
	math.Float64bits(math.NaN()), 0x7ff8000000000001, 0xfff8000000000000, 0x7ff0000000000001, // NaNs incl. signalling and negative
	math.Float64bits(math.Inf(1)), math.Float64bits(math.Inf(-1)),
	0, 0x8000000000000000, // +0, -0
	1, 0x8000000000000001, // smallest subnormals
	0x000fffffffffffff, 0x0010000000000000, // largest subnormal, smallest normal
	math.Float64bits(math.MaxFloat64), math.Float64bits(-math.MaxFloat64),
	math.Float64bits(1), math.Float64bits(-1), math.Float64bits(1.5), math.Float64bits(-1.5),
}

var floatSpecials32 = []uint64{
	uint64(math.Float32bits(float32(math.NaN()))), 0x7fc00001, 0xffc00000, 0x7f800001,
	uint64(math.Float32bits(float32(math.Inf(1)))), uint64(math.Float32bits(float32(math.Inf(-1)))),
	0, 0x80000000, 1, 0x80000001, 0x007fffff, 0x00800000,
	uint64(math.Float32bits(math.MaxFloat32)), uint64(math.Float32bits(-math.MaxFloat32)),
	uint64(math.Float32bits(1)), uint64(math.Float32bits(-1)), uint64(math.Float32bits(1.5)), uint64(math.Float32bits(-1.5)),
}

func numBoundaries(k *numKind) []uint64 {
	w := uint(k.width)
	maxU := ^uint64(0) >> (64 - w)
	switch k.class {
	case 'u':
		return []uint64{0, 1, 2, 0x7f, 0x80, 0xff, 0x100, maxU >> 1, maxU>>1 + 1, maxU - 1, maxU}
	case 'i':
		minI := uint64(1) << (w - 1)
		return []uint64{0, 1, ^uint64(0), ^uint64(1), 0x7f, 0x80, ^uint64(0x7f), ^uint64(0x80), minI - 1, minI | ^maxU, (minI | ^maxU) + 1, minI - 2}
	}
	if k.width == 32 {
		return floatSpecials32
	}
	return floatSpecials64
}

func numUniverse(t *rapid.T, k *numKind) *universe {
	u := &universe{kind: k, profile: "num"}
	nbytes := k.width / 8
	bounds := numBoundaries(k)
	if nbytes == 1 {
		u.profile = "num8"
		lo := pick(t, []int{0, 0, 0x70, 0xC0}, "n8lo")
		wd := pick(t, []int{256, 6, 20, 60}, "n8w")
		u.draw = func(t *rapid.T) []byte {
			return rawOf(uint64((lo + drawInt(t, 0, wd-1, "n8")) & 0xff))
		}
		u.bulk = func(t *rapid.T, n int) [][]byte {
			var out [][]byte
			first := drawInt(t, 0, 255, "b0")
			for i := 0; i < n && i < 256; i++ {
				out = append(out, rawOf(uint64((first+i)&0xff)))
			}
			return out
		}
		return u
	}
	// clusters: a base value whose byte at `pos` ranges over a window; the low byte takes a few values
	nb := drawInt(t, 1, 2, "nbases")
	type cluster struct {
		base  uint64
		pos   int
		start int
		width int
		lows  []uint64
	}
	var cl []cluster
	for i := 0; i < nb; i++ {
		var base uint64
		if drawInt(t, 0, 1, "bb") == 0 {
			base = pick(t, bounds, "bbase")
		} else {
			base = rapid.Uint64().Draw(t, "rbase")
		}
		c := cluster{base: base, pos: drawInt(t, 0, nbytes-1, "cpos"),
			start: pick(t, []int{0, 0x70, 0xC0, 0xF0}, "cstart"), width: pick(t, []int{3, 6, 20, 60, 256}, "cwidth")}
		nl := drawInt(t, 1, 3, "nlows")
		for j := 0; j < nl; j++ {
			c.lows = append(c.lows, uint64(pick(t, []int{0, 1, 0x7f, 0x80, 0xff}, "low")))
		}
		cl = append(cl, c)
	}
	mk := func(c cluster, w int, low uint64) []byte {
		sh := uint(8 * (nbytes - 1 - c.pos))
		v := c.base &^ (uint64(0xff) << sh)
		v |= uint64((c.start+w)&0xff) << sh
		if c.pos != nbytes-1 {
			v = v&^0xff | low
		}
		return k.Canon(rawOf(v))
	}
	u.draw = func(t *rapid.T) []byte {
		switch weighted(t, []int{12, 3, 1, 2}, "nsrc") {
		case 0:
			c := pick(t, cl, "cl")
			return mk(c, drawInt(t, 0, c.width-1, "cw"), pick(t, c.lows, "cl_low"))
		case 1:
			return k.Canon(rawOf(pick(t, bounds, "bound")))
		case 3:
			// a constant of the library's source, or what a bit operation or two make of it
			if loadDict(); len(dictVals) > 0 {
				return k.Canon(rawOf(pick(t, dictDerived(pick(t, dictVals, "dictc"), k.width), "dictd")))
			}
		}
		return k.Canon(rawOf(rapid.Uint64().Draw(t, "rnd")))
	}
	// grid: two adjacent key bytes that both range over a window, so that a wide node sits under a
	// branch byte (the largest / smallest among them) of another wide node
	type gridT struct {
		base           uint64
		pos            int
		s1, w1, s2, w2 int
	}
	var grid *gridT
	if drawInt(t, 0, 2, "grid") == 0 {
		grid = &gridT{base: cl[0].base, pos: drawInt(t, 0, nbytes-2, "gpos"),
			s1: pick(t, []int{0, 0x10, 0x70, 0xC0}, "gs1"), w1: pick(t, []int{6, 20, 60, 256}, "gw1"),
			s2: pick(t, []int{0, 0x10, 0x70, 0xC0, 0xE0}, "gs2"), w2: pick(t, []int{6, 20, 60, 256}, "gw2")}
		u.profile = "numgrid"
	}
	mkg := func(i, j int) []byte {
		sh := uint(8 * (nbytes - 1 - grid.pos))
		v := grid.base &^ (uint64(0xffff) << (sh - 8))
		v |= uint64((grid.s1+i%grid.w1)&0xff) << sh
		v |= uint64((grid.s2+j%grid.w2)&0xff) << (sh - 8)
		return k.Canon(rawOf(v))
	}
	ghub := func(t *rapid.T, w int) int { return pick(t, []int{w - 1, w - 1, 0, w / 2, w - 2}, "ghub") % w }
	if grid != nil {
		inner := u.draw
		u.draw = func(t *rapid.T) []byte {
			switch drawInt(t, 0, 3, "gsrc") {
			case 0:
				return mkg(ghub(t, grid.w1), drawInt(t, 0, grid.w2-1, "gj"))
			case 1:
				return mkg(drawInt(t, 0, grid.w1-1, "gi"), ghub(t, grid.w2))
			}
			return inner(t)
		}
	}
	u.bulk = func(t *rapid.T, n int) [][]byte {
		if grid != nil && drawInt(t, 0, 2, "gbulk") != 0 {
			var out [][]byte
			first := drawInt(t, 0, 255, "gb0")
			if drawInt(t, 0, 1, "grow") == 0 {
				i := ghub(t, grid.w1)
				for j := 0; j < n && j < grid.w2; j++ {
					out = append(out, mkg(i, first+j))
				}
			} else {
				j := ghub(t, grid.w2)
				for i := 0; i < n && i < grid.w1; i++ {
					out = append(out, mkg(first+i, j))
				}
			}
			return out
		}
		c := pick(t, cl, "bcl")
		low := pick(t, c.lows, "blow")
		first := drawInt(t, 0, 255, "b0")
		var out [][]byte
		for i := 0; i < n && i < 256; i++ {
			out = append(out, mk(cluster{base: c.base, pos: c.pos, start: 0, width: 256}, (first+i)&0xff, low))
		}
		return out
	}
	return u
}

func compoundUniverse(t *rapid.T, k *compoundKind) *universe {
	u := &universe{kind: k, profile: "compound"}
	var fieldVals [][][]byte
	for _, f := range k.fields {
		fu := numUniverse(t, f)
		n := drawInt(t, 1, 4, "nfv")
		var vals [][]byte
		for i := 0; i < n; i++ {
			vals = append(vals, fu.draw(t))
		}
		fieldVals = append(fieldVals, vals)
	}
	var strs [][]byte
	if k.hasStr {
		alpha := drawAlphabet(t, false)
		n := drawInt(t, 2, 6, "nstr")
		stem := stemOf(pick(t, []int{0, 0, 3, 11}, "cstem"), 1)
		for i := 0; i < n; i++ {
			s := clone(stem)
			l := drawInt(t, 0, 3, "csl")
			for j := 0; j < l; j++ {
				s = append(s, pick(t, alpha, "csb"))
			}
			strs = append(strs, s)
		}
		strs = append(strs, nil)
	}
	lastWide := len(k.fields) > 0 && drawInt(t, 0, 2, "lastwide") == 0
	var lastU *universe
	if lastWide {
		lastU = numUniverse(t, k.fields[len(k.fields)-1])
	}
	u.draw = func(t *rapid.T) []byte {
		var raw []byte
		for i := range k.fields {
			if lastWide && i == len(k.fields)-1 {
				raw = append(raw, lastU.draw(t)...)
			} else {
				raw = append(raw, pick(t, fieldVals[i], "fv")...)
			}
		}
		if k.hasStr {
			raw = append(raw, pick(t, strs, "sv")...)
		}
		return raw
	}
	if lastWide && lastU.bulk != nil {
		u.bulk = func(t *rapid.T, n int) [][]byte {
			var head []byte
			for i := 0; i < len(k.fields)-1; i++ {
				head = append(head, pick(t, fieldVals[i], "fv")...)
			}
			var tail []byte
			if k.hasStr {
				tail = pick(t, strs, "sv")
			}
			var out [][]byte
			for _, v := range lastU.bulk(t, n) {
				out = append(out, append(append(clone(head), v...), tail...))
			}
			return out
		}
	}
	return u
}

// drawUniverse draws a universe suited to the kind; profiles lists the
// admissible byte-string profiles (nil: the default mix).
func drawUniverse(t *rapid.T, k Kind, profiles []string) *universe {
	switch kk := k.(type) {
	case *numKind:
		return numUniverse(t, kk)
	case *compoundKind:
		return compoundUniverse(t, kk)
	case *collKind:
		if profiles == nil {
			profiles = []string{"text", "text", "text", "dense", "deep", "fan", "textfan", "textfan"}
		}
		return bytesUniverse(t, k, pick(t, profiles, "profile"))
	}
	if profiles == nil {
		profiles = []string{"dense", "dense", "dense", "dense", "dense", "dense", "fan", "fan", "fan", "fan", "fan", "deep", "deep", "deep", "nul", "nul", "nul", "nul", "dense", "giant"}
	}
	return bytesUniverse(t, k, pick(t, profiles, "profile"))
}

// ---------------------------------------------------------------------------
// kinds per case

var allNumKindNames = []string{"u8", "u16", "u32", "u64", "uint", "i8", "i16", "i32", "i64", "int", "f32", "f64"}
var collCfgNames = []string{"und", "en-num", "de", "sv", "es-trad", "zh", "ja", "fr-CA", "ic", "id", "iw", "loose"}

func drawCompoundKind(t *rapid.T) Kind {
	nf := drawInt(t, 0, 4, "nfields")
	k := &compoundKind{}
	for i := 0; i < nf; i++ {
		k.fields = append(k.fields, numKinds[pick(t, []string{"u8", "u16", "u32", "u64", "i8", "i16", "i32", "i64", "f32", "f64"}, "ftype")])
	}
	k.hasStr = nf == 0 || drawInt(t, 0, 1, "hasstr") == 1
	k.asym = drawInt(t, 0, 3, "asym") == 0
	return k
}

// drawKind draws one tree kind from the given families.
func drawKind(t *rapid.T, families []string) Kind {
	switch pick(t, families, "family") {
	case "alpha":
		return MustKind(pick(t, []string{"alpha:string", "alpha:bytes"}, "akind"))
	case "unsigned":
		return MustKind(pick(t, []string{"u8", "u16", "u32", "u64", "uint"}, "ukind"))
	case "signed":
		return MustKind(pick(t, []string{"i8", "i16", "i32", "i64", "int"}, "ikind"))
	case "float":
		return MustKind(pick(t, []string{"f32", "f64"}, "fkind"))
	case "collation":
		kt := pick(t, []string{"string", "bytes", "runes"}, "ckt")
		cfg := "und"
		if kt != "runes" {
			cfg = pick(t, collCfgNames, "ccfg")
		}
		return MustKind("coll:" + cfg + ":" + kt)
	case "collation-und":
		return MustKind("coll:und:" + pick(t, []string{"string", "bytes", "runes"}, "ckt"))
	case "compound":
		if drawInt(t, 0, 5, "rawcmp") == 0 {
			return MustKind("cmpraw:bytes") // []byte keys with the library's pass-through codec
		}
		return drawCompoundKind(t)
	}
	panic("unknown family")
}

var allFamilies = []string{"alpha", "alpha", "alpha", "unsigned", "signed", "float", "collation", "compound"}

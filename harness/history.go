package harness

// History: the rapid-driven producer of concrete ops. It draws arguments
// (consulting the model), appends the concrete op to the trace and has the
// engine apply it at once.

import (
	"bytes"
	"fmt"
	"os"
	"strconv"

	"pgregory.net/rapid"
)

// Mix holds the relative weights of the free-form actions.
type Mix struct {
	InsertNew, Overwrite, DeletePresent, DeleteAbsent, SearchPresent, SearchAbsent int
	Range, Prefix, TopBottom, Extremes, Scan, Size, Iter                           int
	BulkInsert, BulkDelete, DeleteAll, GC, Audit, Move                             int
}

// PropSpec describes one history-shaped property check.
type PropSpec struct {
	ID        string
	Cfg       Config
	Mix       Mix
	Families  []string
	Profiles  []string // byte-string profiles (nil: default mix)
	CollProfs []string // profiles for collation kinds (nil: default)
	MinTrees  int
	MaxTrees  int
	Variants  []string // value-type variants (C18)
	Templates []string
	Rule      string
	NonTriv   func(f map[string]int) bool
	KindOf    func(t *rapid.T) Kind // overrides Families
}

type History struct {
	spec    *PropSpec
	cfg     *Config
	eng     *Engine
	trace   *Trace
	unis    []*universe
	deleted [][][]byte
	nextV   int
	aborted bool
	failed  error
}

func newHistory(t *rapid.T, spec *PropSpec) *History {
	cfg := spec.Cfg // copy
	h := &History{spec: spec, cfg: &cfg, nextV: 1}
	if len(spec.Variants) > 0 {
		cfg.ValType = pick(t, spec.Variants, "valtype")
	}
	n := drawInt(t, max(1, spec.MinTrees), max(1, spec.MaxTrees), "ntrees")
	var kinds []Kind
	for i := 0; i < n; i++ {
		var k Kind
		if spec.KindOf != nil {
			k = spec.KindOf(t)
		} else {
			k = drawKind(t, spec.Families)
		}
		kinds = append(kinds, k)
	}
	h.trace = &Trace{Property: spec.ID, Variant: cfg.ValType}
	for _, k := range kinds {
		h.trace.Kinds = append(h.trace.Kinds, k.Name())
	}
	h.eng = NewEngine(h.cfg, kinds)
	if cfg.AuditEvery > 1 {
		h.eng.AuditPhase = drawInt(t, 0, cfg.AuditEvery-1, "auditphase")
		h.trace.Params = map[string]string{"audit_phase": strconv.Itoa(h.eng.AuditPhase)}
	}
	for _, k := range kinds {
		profs := spec.Profiles
		if k.Family() == "collation" {
			profs = spec.CollProfs
		}
		h.unis = append(h.unis, drawUniverse(t, k, profs))
	}
	h.deleted = make([][][]byte, n)
	return h
}

// emit records op, applies it and fails the rapid case on a violation.
func (h *History) emit(t *rapid.T, op Op) {
	if h.aborted || h.failed != nil {
		return
	}
	if h.cfg.Arena && op.Spare == 0 && op.Off == 0 {
		op.Off = drawInt(t, 0, 8, "off")
		op.Spare = pick(t, []int{0, 0, 1, 1, 2, 3, 3, 8, 24, 60}, "spare")
		op.Fill = weighted(t, []int{4, 2, 2, 1}, "fill")
	}
	if h.cfg.ValType == "empty" {
		op.V = 0
	}
	if h.cfg.ValType == "u8" {
		op.V &= 0xff
	}
	if h.cfg.ValType != "" {
		churn = make([]byte, 64+len(h.trace.Ops)%512) // allocation churn so that freed memory is reused quickly
	}
	h.trace.Ops = append(h.trace.Ops, op)
	if writeAheadPath != "" {
		_ = h.trace.Save(writeAheadPath)
	}
	s := h.eng.slots[op.T]
	wasPresent := false
	if op.Op == "delete" {
		_, wasPresent = s.model.Get(s.kind.Canon(op.K))
	}
	err := h.eng.Apply(op)
	if wasPresent && len(h.deleted[op.T]) < 64 {
		h.deleted[op.T] = append(h.deleted[op.T], clone(op.K))
	}
	h.handle(t, err)
}

func (h *History) handle(t *rapid.T, err error) {
	if err == nil {
		return
	}
	if err == ErrAbort {
		h.aborted = true
		return
	}
	h.failed = err
	tr := *h.trace
	tr.Ops = append([]Op(nil), h.trace.Ops...)
	tr.Failure = err.Error()
	failures.add(&tr)
	if dir := os.Getenv("VERIF_FUZZ_FAILDIR"); dir != "" { // fuzz workers: persist every failing trace at once
		_ = os.MkdirAll(dir, 0o755)
		_ = tr.Save(fmt.Sprintf("%s/%06d-%016x.json", dir, len(tr.Ops), tr.Hash()))
	}
	t.Fatalf("%s: %v", h.spec.ID, err)
}

func (h *History) finish(t *rapid.T) {
	if h.aborted || h.failed != nil {
		if h.aborted {
			stats.aborted()
		}
		return
	}
	h.handle(t, h.eng.Finish())
	if h.failed == nil {
		stats.record(h)
	}
}

func (h *History) value() int { h.nextV++; return h.nextV }

// storedKey picks a stored key of tree ti (nil if none).
func (h *History) storedKey(t *rapid.T, ti int, label string) []byte {
	es := h.eng.slots[ti].model.Sorted()
	if len(es) == 0 {
		return nil
	}
	return es[drawInt(t, 0, len(es)-1, label)].Raw
}

func (h *History) freshKey(t *rapid.T, ti int) []byte {
	k := h.unis[ti].draw(t)
	return h.eng.slots[ti].kind.Canon(k)
}

func cutOffsets(n int) []int {
	c := []int{0, 1, n / 2, 9, 10, 11, n - 1, n - 2}
	var out []int
	for _, x := range c {
		if x >= 0 && x < n {
			out = append(out, x)
		}
	}
	if len(out) == 0 {
		out = []int{0}
	}
	return out
}

// nearKey derives a key close to a stored one: truncated, extended, changed in
// one byte, previously deleted, or fresh from the universe.
func (h *History) nearKey(t *rapid.T, ti int) ([]byte, string) {
	s := h.eng.slots[ti]
	k := s.kind
	stored := h.storedKey(t, ti, "near")
	mode := weighted(t, []int{3, 2, 3, 2, 2}, "nearmode")
	if stored == nil && mode < 3 {
		mode = 4
	}
	var out []byte
	note := ""
	switch mode {
	case 0:
		note = "truncated"
		switch kk := k.(type) {
		case *numKind:
			out = rawOf(bitsOf(stored) - 1)
		case *compoundKind:
			out = clone(stored)
			if kk.hasStr && len(out) > len(kk.fields)*8 {
				out = out[:len(out)-1]
			} else if len(kk.fields) > 0 {
				out[len(kk.fields)*8-1]--
			}
		default:
			if len(stored) == 0 {
				out = h.freshKey(t, ti)
			} else {
				out = clone(stored[:pick(t, cutOffsets(len(stored)), "cut")])
			}
		}
	case 1:
		note = "extended"
		switch kk := k.(type) {
		case *numKind:
			out = rawOf(bitsOf(stored) + 1)
		case *compoundKind:
			out = clone(stored)
			if kk.hasStr {
				out = append(out, pick(t, []byte{'a', 0x01, 0xff, 0x80}, "ext"))
			} else {
				out[len(kk.fields)*8-1]++
			}
		default:
			out = clone(stored)
			ext := []byte{'a', 0x01, 0xff, 0x80, 0x00}
			if k.Family() == "collation" {
				ext = []byte{'a', 'b', '1', ' '}
			}
			for i := drawInt(t, 1, 2, "nx"); i > 0; i-- {
				out = append(out, pick(t, ext, "ext"))
			}
		}
	case 2:
		note = "changed"
		out = clone(stored)
		switch kk := k.(type) {
		case *numKind:
			bit := uint(drawInt(t, 0, kk.width-1, "bit"))
			out = rawOf(bitsOf(stored) ^ (1 << bit))
		case *compoundKind:
			if len(out) > 0 {
				out[drawInt(t, 0, len(out)-1, "cpos")] ^= byte(1 << uint(drawInt(t, 0, 7, "cbit")))
				if kk.hasStr && bytes.IndexByte(out[len(kk.fields)*8:], 0) >= 0 {
					out = clone(stored)
				}
			}
		default:
			if len(out) == 0 {
				out = []byte{'a'}
			} else {
				pos := pick(t, cutOffsets(len(out)), "chpos")
				if k.Family() == "collation" {
					out[pos] ^= 0x01
					if !validRunes(out) {
						out = clone(stored)
						out[pos] = 'q'
					}
				} else {
					out[pos] ^= byte(pick(t, []int{0x01, 0x80, 0xff}, "chx"))
				}
			}
		}
	case 3:
		note = "deleted"
		if len(h.deleted[ti]) == 0 {
			out = h.freshKey(t, ti)
			note = "fresh"
		} else {
			out = clone(pick(t, h.deleted[ti], "del"))
		}
	default:
		note = "fresh"
		out = h.freshKey(t, ti)
	}
	out = k.Canon(out)
	if ck, ok := k.(*collKind); ok && ck.ktype == "runes" && !validRunes(out) {
		out = h.freshKey(t, ti)
		note = "fresh"
	}
	return out, note
}

// bound draws a Range bound.
func (h *History) bound(t *rapid.T, ti int, other []byte) ([]byte, string) {
	s := h.eng.slots[ti]
	es := s.model.Sorted()
	mode := weighted(t, []int{4, 3, 1, 1, 1, 2, 1}, "bmode")
	if len(es) == 0 && mode < 4 {
		mode = 5
	}
	switch mode {
	case 0:
		return clone(es[drawInt(t, 0, len(es)-1, "bi")].Raw), "stored"
	case 1:
		k, _ := h.nearKey(t, ti)
		return k, "near"
	case 2: // below the minimum
		mn := es[0].Raw
		switch s.kind.(type) {
		case *numKind:
			return s.kind.Canon(rawOf(bitsOf(mn) - 1)), "below-min"
		case *alphaKind:
			if len(mn) > 0 {
				return clone(mn[:len(mn)-1]), "below-min"
			}
		}
		return clone(mn), "min"
	case 3: // above the maximum
		mx := es[len(es)-1].Raw
		switch s.kind.(type) {
		case *numKind:
			return s.kind.Canon(rawOf(bitsOf(mx) + 1)), "above-max"
		case *alphaKind:
			return append(clone(mx), 0xff), "above-max"
		}
		return clone(mx), "max"
	case 4:
		if other != nil {
			return clone(other), "equal"
		}
		return h.freshKey(t, ti), "fresh"
	case 6:
		if _, ok := s.kind.(*alphaKind); ok {
			return []byte{}, "empty"
		}
		if _, ok := s.kind.(*rawCmpKind); ok {
			return []byte{}, "empty"
		}
		return h.freshKey(t, ti), "fresh"
	}
	return h.freshKey(t, ti), "fresh"
}

// prefixArg draws an argument for Prefix.
func (h *History) prefixArg(t *rapid.T, ti int) ([]byte, string) {
	s := h.eng.slots[ti]
	es := s.model.Sorted()
	mode := weighted(t, []int{1, 2, 5, 2, 3, 1, 2, 3}, "pmode")
	if len(es) == 0 && mode != 0 {
		mode = 6
	}
	coll := s.kind.Family() == "collation"
	fix := func(b []byte, note string) ([]byte, string) {
		if coll && !validRunes(b) { // cut inside a multi-byte character: move back to a boundary
			for len(b) > 0 && !validRunes(b) {
				b = b[:len(b)-1]
			}
		}
		return b, note
	}
	switch mode {
	case 0:
		return []byte{}, "empty"
	case 1:
		return clone(es[drawInt(t, 0, len(es)-1, "pi")].Raw), "stored"
	case 2:
		k := es[drawInt(t, 0, len(es)-1, "pi")].Raw
		if len(k) == 0 {
			return []byte{}, "empty"
		}
		cut := pick(t, append(cutOffsets(len(k)), drawInt(t, 0, len(k)-1, "rc")), "pcut")
		return fix(clone(k[:cut+1]), "cut")
	case 3:
		k := clone(es[drawInt(t, 0, len(es)-1, "pi")].Raw)
		return append(k, pick(t, []byte{'a', 'x', '1'}, "pext")), "extended"
	case 4: // sibling splice: another subtree's branch byte followed by this subtree's continuation
		a := es[drawInt(t, 0, len(es)-1, "pa")].Raw
		b := es[drawInt(t, 0, len(es)-1, "pb")].Raw
		l := lcp(a, b)
		if l < len(b) && l < len(a) {
			p := append(clone(b[:l+1]), a[l+1:]...)
			if len(p) > l+1 {
				p = p[:drawInt(t, l+1, len(p), "plen")]
			}
			return fix(p, "splice")
		}
		return fix(clone(a[:len(a)/2]), "cut")
	case 5:
		k := clone(es[len(es)-1].Raw)
		for i := 0; i < 12; i++ {
			k = append(k, 'z')
		}
		return k, "longer"
	case 7: // the beginning of a stored key with one earlier byte changed: leaves the tree inside an
		// upper (possibly long, only partly inline) path and still ends inside a deeper one
		k := es[drawInt(t, 0, len(es)-1, "pi")].Raw
		if len(k) < 2 {
			return fix(clone(k), "cut")
		}
		cut := pick(t, append(cutOffsets(len(k)), drawInt(t, 1, len(k)-1, "rc"), len(k)-1, len(k)-2), "pcut")
		cut = max(cut, 1)
		p := clone(k[:cut+1])
		pos := pick(t, []int{cut - 1, 10, 11, 12, 9, drawInt(t, 0, cut-1, "rpos")}, "chpos")
		if pos >= cut {
			pos = cut - 1
		}
		if coll {
			p[pos] ^= 0x01
		} else {
			p[pos] ^= byte(pick(t, []int{0x01, 0x20, 0x80}, "chx"))
		}
		return fix(p, "cut-changed")
	}
	k, _ := h.nearKey(t, ti)
	return fix(k, "near")
}

func (h *History) kArg(t *rapid.T, ti int) uint64 {
	n := uint64(h.eng.slots[ti].model.Len())
	switch weighted(t, []int{2, 2, 2, 2, 2, 1, 1, 3, 1, 1, 1}, "kmode") {
	case 8:
		return ^uint64(0) // the largest uint (clamped to 2^32-1 on 32-bit platforms)
	case 9:
		return 1 << 63
	case 10:
		return 1 << 31
	case 0:
		return 0
	case 1:
		return 1
	case 2:
		if n > 0 {
			return n - 1
		}
		return 0
	case 3:
		return n
	case 4:
		return n + 1
	case 5:
		return n + 17
	case 6:
		return 1 << 32
	}
	return uint64(drawInt(t, 0, int(n)+2, "krnd"))
}

// step performs one free-form action (which may emit several ops).
func (h *History) step(t *rapid.T) {
	if h.aborted || h.failed != nil {
		return
	}
	for _, u := range h.unis {
		if u.profile == "giant" && len(h.trace.Ops) > 14 {
			return // histories on 64 KiB keys stay short: every audit copies the keys
		}
	}
	ti := 0
	if len(h.eng.slots) > 1 {
		ti = drawInt(t, 0, len(h.eng.slots)-1, "tree")
	}
	s := h.eng.slots[ti]
	m := h.spec.Mix
	ws := []int{m.InsertNew, m.Overwrite, m.DeletePresent, m.DeleteAbsent, m.SearchPresent, m.SearchAbsent,
		m.Range, m.Prefix, m.TopBottom, m.Extremes, m.Scan, m.Size, m.Iter, m.BulkInsert, m.BulkDelete, m.DeleteAll, m.GC, m.Audit, m.Move}
	if !s.kind.HasRange() && !(h.cfg.CallUndefined && s.kind.Family() == "collation") {
		ws[6] = 0
	}
	if !s.kind.HasPrefix() {
		ws[7] = 0
	}
	if h.unis[ti].bulk == nil {
		ws[13] = 0
	}
	empty := s.model.Len() == 0
	if empty {
		ws[1], ws[2], ws[4], ws[14], ws[15], ws[18] = 0, 0, 0, 0, 0, 0
	}
	switch weighted(t, ws, "action") {
	case 0:
		h.emit(t, Op{T: ti, Op: "insert", K: h.freshKey(t, ti), V: h.value()})
	case 1:
		h.emit(t, Op{T: ti, Op: "insert", K: clone(h.storedKey(t, ti, "ow")), V: h.value(), Note: "overwrite"})
	case 2:
		h.emit(t, Op{T: ti, Op: "delete", K: clone(h.storedKey(t, ti, "dp"))})
	case 3:
		k, note := h.nearKey(t, ti)
		k, note = h.rawProbe(t, ti, k, note)
		h.emit(t, Op{T: ti, Op: "delete", K: k, Note: note})
	case 4:
		h.emit(t, Op{T: ti, Op: "search", K: clone(h.storedKey(t, ti, "sp"))})
	case 5:
		k, note := h.nearKey(t, ti)
		k, note = h.rawProbe(t, ti, k, note)
		h.emit(t, Op{T: ti, Op: "search", K: k, Note: note})
	case 6:
		a, na := h.bound(t, ti, nil)
		b, nb := h.bound(t, ti, a)
		h.emit(t, Op{T: ti, Op: "range", K: a, K2: b, Note: na + "," + nb})
	case 7:
		p, note := h.prefixArg(t, ti)
		h.emit(t, Op{T: ti, Op: "prefix", K: p, Note: note})
	case 8:
		h.emit(t, Op{T: ti, Op: pick(t, []string{"topk", "bottomk"}, "tb"), N: h.kArg(t, ti)})
	case 9:
		h.emit(t, Op{T: ti, Op: pick(t, []string{"min", "max"}, "mm")})
	case 10:
		h.emit(t, Op{T: ti, Op: pick(t, []string{"all", "backward"}, "ab")})
	case 11:
		h.emit(t, Op{T: ti, Op: "size"})
	case 12:
		h.iterOp(t, ti)
	case 13:
		n := pick(t, []int{4, 5, 13, 17, 33, 49, 64}, "bulkn")
		for _, k := range h.unis[ti].bulk(t, n) {
			h.emit(t, Op{T: ti, Op: "insert", K: k, V: h.value(), Note: "bulk"})
		}
		h.emit(t, Op{T: ti, Op: "audit", Note: "peak"})
	case 14:
		n := pick(t, []int{2, 5, 13, 17, 33, 49, 64}, "bulkd")
		es := s.model.Sorted()
		start := drawInt(t, 0, len(es)-1, "bd0")
		rev := drawInt(t, 0, 1, "bdrev") == 1
		var ks [][]byte
		for i := 0; i < n && i < len(es); i++ {
			j := (start + i) % len(es)
			if rev {
				j = (start - i + len(es)*2) % len(es)
			}
			ks = append(ks, clone(es[j].Raw))
		}
		for _, k := range ks {
			h.emit(t, Op{T: ti, Op: "delete", K: k, Note: "bulk"})
		}
	case 15:
		var ks [][]byte
		for _, en := range s.model.Sorted() {
			ks = append(ks, clone(en.Raw))
		}
		if drawInt(t, 0, 1, "darev") == 1 {
			for i, j := 0, len(ks)-1; i < j; i, j = i+1, j-1 {
				ks[i], ks[j] = ks[j], ks[i]
			}
		}
		for _, k := range ks {
			h.emit(t, Op{T: ti, Op: "delete", K: k, Note: "deleteAll"})
		}
	case 16:
		h.emit(t, Op{T: ti, Op: "gc"})
		h.emit(t, Op{T: ti, Op: "gccheck"})
	case 17:
		h.emit(t, Op{T: ti, Op: "audit"})
	case 18:
		// re-file a stored value under another (stored or fresh) key, then overwrite or delete the source
		from := clone(h.storedKey(t, ti, "mvfrom"))
		var to []byte
		if drawInt(t, 0, 1, "mvfresh") == 0 {
			to = h.freshKey(t, ti)
		} else {
			to = clone(h.storedKey(t, ti, "mvto"))
		}
		h.emit(t, Op{T: ti, Op: "move", K: from, K2: to})
		switch drawInt(t, 0, 2, "mvthen") {
		case 0:
			h.emit(t, Op{T: ti, Op: "insert", K: from, V: h.value(), Note: "overwrite-source"})
		case 1:
			h.emit(t, Op{T: ti, Op: "delete", K: from, Note: "delete-source"})
		}
	}
}

// rawProbe: on a raw []byte compound tree some absent probes are passed unterminated (they are no
// keys of the codec, so they are absent whatever they are): a stored or nearby key without its
// terminator, or cut somewhere before it - partial paths, what a re-slice of a stored key is.
func (h *History) rawProbe(t *rapid.T, ti int, k []byte, note string) ([]byte, string) {
	if _, raw := h.eng.slots[ti].kind.(*rawCmpKind); !raw || len(k) < 2 || drawInt(t, 0, 1, "unterm") != 0 {
		return k, note
	}
	cut := len(k) - 1
	if drawInt(t, 0, 2, "untermcut") == 0 {
		cut = drawInt(t, 1, len(k)-1, "untermat")
	}
	if bytes.IndexByte(k[:cut], 0) >= 0 {
		return k, note
	}
	return clone(k[:cut]), note + ",unterminated"
}

func (h *History) iterOp(t *rapid.T, ti int) {
	s := h.eng.slots[ti]
	methods := []string{"all", "backward", "topk", "bottomk"}
	if s.kind.HasPrefix() {
		methods = append(methods, "prefix", "prefix")
	}
	if s.kind.HasRange() || s.kind.Family() == "collation" {
		methods = append(methods, "range", "range")
	}
	op := Op{T: ti, Op: "iter", M: pick(t, methods, "im")}
	switch op.M {
	case "prefix":
		op.K, _ = h.prefixArg(t, ti)
	case "range":
		op.K, _ = h.bound(t, ti, nil)
		op.K2, _ = h.bound(t, ti, op.K)
	case "topk", "bottomk":
		op.N = h.kArg(t, ti)
	}
	n := s.model.Len()
	op.Stop = drawInt(t, -1, n, "stop")
	op.Re = drawInt(t, 1, 3, "re")
	op.Btw = pick(t, []int{0, 0, 1, 1, 2, 3}, "btw")
	if drawInt(t, 0, 2, "nest") == 0 {
		op.In = pick(t, []int{-1, -1, 1, 2, 3}, "in")
	}
	if drawInt(t, 0, 3, "pull") == 0 {
		op.Pull = drawInt(t, 1, 0x1fff, "pullsched")
		op.T2 = drawInt(t, 0, len(h.eng.slots)-1, "pullt2")
	}
	h.emit(t, op)
}

// ---------------------------------------------------------------------------
// focused templates: scripted scenarios whose parameters are drawn

func (h *History) runTemplate(t *rapid.T) {
	if len(h.spec.Templates) == 0 {
		return
	}
	name := pick(t, append([]string{"free", "free"}, h.spec.Templates...), "template")
	if name == "free" {
		return
	}
	ti := 0
	if len(h.eng.slots) > 1 {
		ti = drawInt(t, 0, len(h.eng.slots)-1, "ttree")
	}
	s := h.eng.slots[ti]
	if !s.kind.IsBytes() {
		h.numTemplate(t, ti, name)
		return
	}
	coll := s.kind.Family() == "collation"
	letter := func(i int) byte { return "abcdefghijklmnopqrstuvwxyz"[i%26] }
	ins := func(k []byte, note string) { h.emit(t, Op{T: ti, Op: "insert", K: k, V: h.value(), Note: note}) }
	switch name {
	case "longpath":
		// keys sharing a stem longer than the inline limit; probes shorter than / diverging inside it
		l := drawInt(t, 11, 30, "lp_len")
		stem := make([]byte, l)
		for i := range stem {
			stem[i] = letter(i * 7)
		}
		nk := drawInt(t, 2, 4, "lp_nk")
		for i := 0; i < nk; i++ {
			ins(append(clone(stem), letter(i), letter(i*3)), "tpl:longpath")
		}
		for i := drawInt(t, 1, 4, "lp_np"); i > 0; i-- {
			cut := drawInt(t, 0, l, "lp_cut")
			probe := clone(stem[:cut])
			switch drawInt(t, 0, 3, "lp_kind") {
			case 0:
				h.emit(t, Op{T: ti, Op: "search", K: probe, Note: "tpl:shorter-than-path"})
			case 1:
				h.emit(t, Op{T: ti, Op: "delete", K: probe, Note: "tpl:shorter-than-path"})
			case 2: // diverge at `cut`, keep the rest
				p := append(clone(stem), letter(0), letter(0))
				if cut < len(p) {
					p[cut] = 'Z'
				}
				h.emit(t, Op{T: ti, Op: pick(t, []string{"search", "delete"}, "lp_sd"), K: p, Note: "tpl:diverges-inside-path"})
			default: // split the path by inserting a key that diverges at `cut`
				p := clone(stem[:cut])
				p = append(p, 'Q', letter(i))
				ins(p, "tpl:split-path")
			}
		}
	case "fanupdown":
		if coll {
			h.numTemplate(t, ti, name) // grows and shrinks through the universe's own bulk keys (valid text)
			return
		}
		stem := stemOf(pick(t, []int{0, 1, 12}, "fu_stem"), 5)
		n := pick(t, []int{5, 17, 49, 60, 200, 256}, "fu_n")
		first := drawInt(t, 0, 255, "fu_first")
		var ks [][]byte
		for i := 0; i < n; i++ {
			b := byte(first + i)
			ks = append(ks, append(append(clone(stem), b), 'k'))
		}
		for _, k := range ks {
			ins(k, "tpl:fan-up")
		}
		h.emit(t, Op{T: ti, Op: "audit", Note: "tpl:peak"})
		keep := pick(t, []int{0, 1, 2, 3, 4, 12, 13, 37, 38}, "fu_keep")
		order := drawInt(t, 0, 2, "fu_order")
		for i := 0; i < len(ks)-keep; i++ {
			j := i
			switch order {
			case 1:
				j = len(ks) - 1 - i
			case 2:
				if i%2 == 0 {
					j = i / 2
				} else {
					j = len(ks) - 1 - i/2
				}
			}
			h.emit(t, Op{T: ti, Op: "delete", K: ks[j], Note: "tpl:fan-down"})
		}
		h.emit(t, Op{T: ti, Op: "audit", Note: "tpl:trough"})
	case "prefixsibling":
		// siblings with identical continuation below different branch bytes
		pl := pick(t, []int{0, 3, 10, 11, 14}, "ps_pl")
		p := make([]byte, pl)
		for i := range p {
			p[i] = letter(i)
		}
		nb := pick(t, []int{2, 5, 17, 40}, "ps_nb")
		cont := []byte(pick(t, []string{"xy", "xyzxyzxyzxyzw", "x"}, "ps_cont"))
		for i := 0; i < nb; i++ {
			for j := 0; j < 2; j++ {
				k := append(clone(p), 'A'+byte(i))
				k = append(k, cont...)
				k = append(k, '1'+byte(j))
				ins(k, "tpl:sibling")
			}
		}
		for i := drawInt(t, 1, 3, "ps_nq"); i > 0; i-- {
			q := append(clone(p), 'A'+byte(drawInt(t, 0, nb, "ps_b")))
			q = append(q, cont[:drawInt(t, 0, len(cont), "ps_cl")]...)
			h.emit(t, Op{T: ti, Op: "prefix", K: q, Note: "tpl:sibling-prefix"})
		}
	case "rangedecoy":
		if coll {
			return
		}
		// an unrelated subtree ordered before the queried one, bounds sharing a long prefix
		for i := 0; i < drawInt(t, 2, 4, "rd_nd"); i++ {
			ins([]byte{'a', '1' + byte(i)}, "tpl:decoy")
		}
		l := pick(t, []int{2, 6, 11, 15}, "rd_l")
		stem := make([]byte, l)
		for i := range stem {
			stem[i] = 'b' + byte(i%5)
		}
		nk := drawInt(t, 2, 6, "rd_nk")
		var ks [][]byte
		for i := 0; i < nk; i++ {
			k := append(clone(stem), 'X', '1'+byte(i))
			ks = append(ks, k)
			ins(k, "tpl:target")
		}
		a := ks[drawInt(t, 0, nk-1, "rd_a")]
		b := ks[drawInt(t, 0, nk-1, "rd_b")]
		h.emit(t, Op{T: ti, Op: "range", K: clone(a), K2: clone(b), Note: "tpl:range-behind-decoy"})
	case "emptied":
		n := drawInt(t, 1, 6, "em_n")
		var ks [][]byte
		for i := 0; i < n; i++ {
			k := h.freshKey(t, ti)
			ks = append(ks, k)
			ins(k, "tpl:emptied")
		}
		for _, k := range ks {
			h.emit(t, Op{T: ti, Op: "delete", K: k, Note: "tpl:emptied"})
		}
	}
}

func (h *History) numTemplate(t *rapid.T, ti int, name string) {
	s := h.eng.slots[ti]
	u := h.unis[ti]
	switch name {
	case "fanupdown":
		if u.bulk == nil {
			return
		}
		n := pick(t, []int{5, 17, 49, 60, 200, 256}, "fu_n")
		ks := u.bulk(t, n)
		for _, k := range ks {
			h.emit(t, Op{T: ti, Op: "insert", K: k, V: h.value(), Note: "tpl:fan-up"})
		}
		h.emit(t, Op{T: ti, Op: "audit", Note: "tpl:peak"})
		keep := pick(t, []int{0, 1, 2, 3, 4, 12, 13, 37, 38}, "fu_keep")
		rev := drawInt(t, 0, 1, "fu_rev") == 1
		for i := 0; i < len(ks)-keep; i++ {
			j := i
			if rev {
				j = len(ks) - 1 - i
			}
			h.emit(t, Op{T: ti, Op: "delete", K: ks[j], Note: "tpl:fan-down"})
		}
		h.emit(t, Op{T: ti, Op: "audit", Note: "tpl:trough"})
	case "emptied":
		n := drawInt(t, 1, 6, "em_n")
		var ks [][]byte
		for i := 0; i < n; i++ {
			k := h.freshKey(t, ti)
			ks = append(ks, k)
			h.emit(t, Op{T: ti, Op: "insert", K: k, V: h.value(), Note: "tpl:emptied"})
		}
		for _, k := range ks {
			h.emit(t, Op{T: ti, Op: "delete", K: k, Note: "tpl:emptied"})
		}
	case "rangedecoy":
		if !s.kind.HasRange() || u.bulk == nil {
			return
		}
		ks := u.bulk(t, drawInt(t, 3, 8, "rd_n"))
		for _, k := range ks {
			h.emit(t, Op{T: ti, Op: "insert", K: k, V: h.value(), Note: "tpl:target"})
		}
		a := ks[drawInt(t, 0, len(ks)-1, "rd_a")]
		b := ks[drawInt(t, 0, len(ks)-1, "rd_b")]
		h.emit(t, Op{T: ti, Op: "range", K: clone(a), K2: clone(b), Note: "tpl:range"})
	}
}

// giantMerge: on a universe of giant keys (path lengths around 2^8 and 2^16) half of the histories
// start with a scripted shape in which a node4 with a very long path is merged into its only
// remaining inner child, or takes over the very long path of that child - the places where a path
// length passes through narrower arithmetic.
func (h *History) giantMerge(t *rapid.T) {
	for ti, u := range h.unis {
		if u.profile != "giant" || u.stem == nil || drawInt(t, 0, 1, "gm") != 0 {
			continue
		}
		x := u.stem
		cat := func(parts ...string) []byte {
			var out []byte
			for _, p := range parts {
				if p == "X" {
					out = append(out, x...)
				} else {
					out = append(out, p...)
				}
			}
			return out
		}
		var keys [][]byte
		var victim []byte
		switch drawInt(t, 0, 2, "gmshape") {
		case 0: // the collapsing node4 carries the long path
			keys, victim = [][]byte{cat("X", "a"), cat("X", "ab"), cat("X", "b")}, cat("X", "b")
		case 1: // the surviving inner child carries the long path
			keys, victim = [][]byte{cat("c", "X", "a"), cat("c", "X", "b"), []byte("d")}, []byte("d")
		default: // both do
			keys, victim = [][]byte{cat("X", "m", "X", "a"), cat("X", "m", "X", "b"), cat("X", "z")}, cat("X", "z")
		}
		for _, k := range keys {
			h.emit(t, Op{T: ti, Op: "insert", K: k, V: h.value(), Note: "tpl:giant-merge"})
		}
		h.emit(t, Op{T: ti, Op: "audit", Note: "tpl:peak"})
		h.emit(t, Op{T: ti, Op: "delete", K: victim, Note: "tpl:giant-merge"})
		h.emit(t, Op{T: ti, Op: "audit", Note: "tpl:trough"})
		for _, k := range keys {
			h.emit(t, Op{T: ti, Op: "search", K: k, Note: "tpl:giant-merge"})
		}
	}
}

// RunHistory is the rapid property body shared by the history-shaped checks.
func RunHistory(t *rapid.T, spec *PropSpec) {
	h := newHistory(t, spec)
	h.runTemplate(t)
	h.giantMerge(t)
	t.Repeat(map[string]func(*rapid.T){"step": h.step})
	h.finish(t)
}

var writeAheadPath string

var churn []byte

func init() {
	if p := os.Getenv("VERIF_WRITEAHEAD"); p != "" {
		writeAheadPath = p
	}
}

var _ = fmt.Sprintf

package harness

// Keys of 2^24 bytes and a little more (C01, C03): the third magnitude at which a
// depth, offset or length may have been squeezed into fewer bits (2^8 and 2^16 are
// covered by the giant profile; 2^31/2^32 would need keys of gigabytes and are out
// of reach here). Three keys share a stem S of that length - S+"a", S+"ab", S+"b" -
// so that an inner node with a non-empty path hangs at depth |S|+1 below a node
// whose path is S; lookups, ranges across and inside the group, the merge caused
// by deleting S+"b", and re-insertion are checked against the obvious answers.
// The tree is driven directly (string keys share the stem's memory).

import (
	"fmt"
	"strconv"
	"strings"
	"testing"

	art "github.com/Clement-Jean/go-art"
	"pgregory.net/rapid"
)

func replayHuge(tr *Trace) error {
	l, _ := strconv.Atoi(tr.Params["huge_len"])
	fillB, _ := strconv.Atoi(tr.Params["huge_fill"])
	stem := strings.Repeat(string(rune('a'+fillB%20)), l)
	alt := stem[:l-5] + "~" + stem[l-4:]
	ka, kab, kb, kalt := stem+"a", stem+"ab", stem+"b", alt+"a"
	kq1, kq2 := stem+"qrs-tail-1", stem+"qrs-tail-2" // an inner node with a non-empty path below the stem
	t := art.NewAlphaSortedTree[string, int]()
	short := func(k string) string {
		return fmt.Sprintf("%q…(%d bytes)…%q", k[:4], len(k), k[max(len(k)-8, 4):])
	}
	var err error
	step := func(what string, f func() string) {
		if err != nil {
			return
		}
		var msg string
		if p := call(func() { msg = f() }); p != "" {
			msg = "did not return normally: " + p
		}
		if msg != "" {
			err = violf("keys with a common stem of %d bytes: %s: %s", l, what, msg)
		}
	}
	collect := func(seq func(func(string, int) bool)) []string {
		var out []string
		seq(func(k string, v int) bool { out = append(out, short(k)+"="+strconv.Itoa(v)); return true })
		return out
	}
	expect := func(got []string, keys []string, vals []int) string {
		var w []string
		for i, k := range keys {
			w = append(w, short(k)+"="+strconv.Itoa(vals[i]))
		}
		if fmt.Sprint(got) != fmt.Sprint(w) {
			return fmt.Sprintf("got %v, expected %v", got, w)
		}
		return ""
	}
	search := func(k string, wantV int, wantOK bool) func() string {
		return func() string {
			if v, ok := t.Search(k); ok != wantOK || (ok && v != wantV) {
				return fmt.Sprintf("Search(%s) = (%d,%v), expected (%d,%v)", short(k), v, ok, wantV, wantOK)
			}
			return ""
		}
	}
	step("insert", func() string {
		t.Insert(ka, 1)
		t.Insert(kb, 3)
		t.Insert(kab, 2)
		t.Insert(kalt, 4)
		t.Insert(kq1, 7)
		t.Insert(kq2, 8)
		return ""
	})
	step("size", func() string {
		if t.Size() != 6 {
			return fmt.Sprintf("Size() = %d, expected 6", t.Size())
		}
		return ""
	})
	step("lookup", search(kq1, 7, true))
	step("lookup", search(kq2, 8, true))
	step("range over the keys below the deep inner node", func() string { return expect(collect(t.Range(kq1, kq2)), []string{kq1, kq2}, []int{7, 8}) })
	step("range with absent bounds around them", func() string {
		return expect(collect(t.Range(stem+"qrs-tail-0", stem+"qrs-tail-9")), []string{kq1, kq2}, []int{7, 8})
	})
	step("range from the group to the deep node", func() string {
		return expect(collect(t.Range(kab, kq1)), []string{kab, kb, kq1}, []int{2, 3, 7})
	})
	step("prefix below the deep node", func() string { return expect(collect(t.Prefix(stem+"qrs-")), []string{kq1, kq2}, []int{7, 8}) })
	step("delete below the deep node", func() string {
		if !t.Delete(kq1) || !t.Delete(kq2) {
			return "Delete of a stored key reports absent"
		}
		return ""
	})
	step("lookup", search(ka, 1, true))
	step("lookup", search(kab, 2, true))
	step("lookup", search(kb, 3, true))
	step("lookup", search(kalt, 4, true))
	step("lookup of the stem itself", search(stem, 0, false))
	step("lookup of a diverging key", search(stem[:l-1]+"!a", 0, false))
	step("full scan", func() string { return expect(collect(t.All()), []string{ka, kab, kb, kalt}, []int{1, 2, 3, 4}) })
	step("range across the group", func() string { return expect(collect(t.Range(ka, kb)), []string{ka, kab, kb}, []int{1, 2, 3}) })
	step("range inside the group", func() string { return expect(collect(t.Range(stem+"aa", stem+"az")), []string{kab}, []int{2}) })
	step("range with absent bounds around the group", func() string {
		return expect(collect(t.Range(stem+"A", stem+"c")), []string{ka, kab, kb}, []int{1, 2, 3})
	})
	step("reversed range", func() string { return expect(collect(t.Range(kb, kab)), []string{kab, kb}, []int{2, 3}) })
	step("prefix", func() string { return expect(collect(t.Prefix(stem+"a")), []string{ka, kab}, []int{1, 2}) })
	step("delete (merge)", func() string {
		if !t.Delete(kb) {
			return "Delete of a stored key reports absent"
		}
		return ""
	})
	step("lookup after the merge", search(ka, 1, true))
	step("lookup after the merge", search(kab, 2, true))
	step("lookup after the merge", search(kb, 0, false))
	step("range after the merge", func() string { return expect(collect(t.Range(ka, kb)), []string{ka, kab}, []int{1, 2}) })
	step("delete (merge at the top)", func() string {
		if !t.Delete(kalt) {
			return "Delete of a stored key reports absent"
		}
		return ""
	})
	step("lookup after the second merge", search(kab, 2, true))
	step("re-insert", func() string { t.Insert(kb, 5); t.Insert(kalt, 6); return "" })
	step("full scan after re-insertion", func() string { return expect(collect(t.All()), []string{ka, kab, kb, kalt}, []int{1, 2, 5, 6}) })
	step("backward scan", func() string { return expect(collect(t.Backward()), []string{kalt, kb, kab, ka}, []int{6, 5, 2, 1}) })
	step("emptying", func() string {
		for _, k := range []string{ka, kab, kb, kalt} {
			if !t.Delete(k) {
				return "Delete of a stored key reports absent"
			}
		}
		if t.Size() != 0 {
			return fmt.Sprintf("Size() = %d after deleting everything", t.Size())
		}
		return ""
	})
	return err
}

func runHuge(t *testing.T, id string) {
	stats.Property = id
	stats.Rule = "keys of 2^24+d bytes: four byte-string keys sharing a stem of that length plus two below a deep inner node with a path; lookups, full scans, ranges across / inside / around the group, prefixes, the merges caused by deletions and re-insertion are compared with the answers that follow from the keys; non-trivial = every case; distinct by stem length"
	rapid.Check(t, func(rt *rapid.T) {
		l := (1 << 24) + pick(rt, []int{-3, -1, 0, 1, 2, 5, 9, 10, 11, 255, 256, 65536}, "hugedelta")
		tr := &Trace{Property: id, Kinds: []string{"alpha:string"}, Params: map[string]string{"mode": "huge", "huge_len": strconv.Itoa(l), "huge_fill": strconv.Itoa(drawInt(rt, 0, 19, "hugefill"))}}
		err := replayHuge(tr)
		stats.AddCase(true, tr.Hash()^uint64(l), []string{"huge_keys_2^24"}, func() any {
			return map[string]any{"kind": "alpha:string", "stem_bytes": l, "keys": 4}
		})
		if err != nil {
			tr.Failure = err.Error()
			failures.addOther(tr)
			rt.Fatalf("%s: %v", id, err)
		}
	})
}

func TestHugeC01(t *testing.T) { runHuge(t, "C01") }
func TestHugeC03(t *testing.T) { runHuge(t, "C03") }

package harness

// Known-finding probes: histories generated *inside* the recorded defect
// classes. They never fail the run; they report whether the class still fails.

import (
	"bytes"
	"encoding/json"
	"fmt"
	"os"
	"testing"

	"pgregory.net/rapid"
)

type kfResult struct {
	StillFails bool   `json:"still_fails"`
	Example    string `json:"example,omitempty"`
	Tried      int    `json:"tried"`
	Failed     int    `json:"failed"`
}

func kfRun(kind Kind, ops []Op) string {
	cfg := &Config{Property: "C01", Assert: asserts("insert", "delete", "search"), AuditOps: []string{"sweep"}, AuditEvery: 1}
	eng := NewEngine(cfg, []Kind{kind})
	for _, op := range ops {
		if err := eng.Apply(op); err != nil {
			return err.Error()
		}
	}
	if err := eng.Finish(); err != nil {
		return err.Error()
	}
	return ""
}

func TestKF_C01(t *testing.T) {
	if *flagKFOut == "" {
		t.Skip("no -verif.kfout")
	}
	out := map[string]*kfResult{"KF1": {}, "KF2": {}}
	note := func(id, msg string, kind Kind, ops []Op) {
		r := out[id]
		r.Tried++
		if msg != "" {
			r.Failed++
			if !r.StillFails {
				r.StillFails = true
				tr := &Trace{Kinds: []string{kind.Name()}, Ops: ops}
				r.Example = fmt.Sprintf("%v on %s: %s", tr.Brief([]Kind{kind}, 8)["ops"], kind.Name(), msg)
				if len(r.Example) > 500 {
					r.Example = r.Example[:500]
				}
			}
		}
	}

	// KF1: two stored byte-string keys one of which extends the other by 0x00...
	for _, kn := range []string{"alpha:string", "alpha:bytes"} {
		k := MustKind(kn)
		ops := []Op{{Op: "insert", K: []byte("a"), V: 1}, {Op: "insert", K: []byte("a\x00"), V: 2}, {Op: "search", K: []byte("a")}}
		note("KF1", kfRun(k, ops), k, ops)
	}
	rapid.Check(quiet{t}, func(rt *rapid.T) {
		k := MustKind(pick(rt, []string{"alpha:string", "alpha:bytes"}, "kind"))
		base := []byte(rapid.StringMatching(`[ab\x01]{0,12}`).Draw(rt, "base"))
		ext := append(append(clone(base), 0), []byte(rapid.StringMatching(`[ab\x00]{0,3}`).Draw(rt, "ext"))...)
		ops := []Op{}
		for i := drawInt(rt, 0, 3, "others"); i > 0; i-- {
			ops = append(ops, Op{Op: "insert", K: []byte(rapid.StringMatching(`[abc]{1,4}`).Draw(rt, "o")), V: 9})
		}
		if drawInt(rt, 0, 1, "order") == 0 {
			ops = append(ops, Op{Op: "insert", K: base, V: 1}, Op{Op: "insert", K: ext, V: 2})
		} else {
			ops = append(ops, Op{Op: "insert", K: ext, V: 2}, Op{Op: "insert", K: base, V: 1})
		}
		ops = append(ops, Op{Op: "search", K: base}, Op{Op: "search", K: ext})
		note("KF1", kfRun(k, ops), k, ops)
	})

	// KF2: two stored collation keys with byte-identical sort keys
	pairs := []struct {
		cfg  string
		a, b string
	}{
		{"und", "café", "café"},       // NFC vs NFD
		{"und", "ab", "a­b"},           // soft hyphen is ignorable
		{"de", "Å", "Å"},              // Å composed / decomposed
		{"ic", "abc", "ABC"},           // case ignored
		{"id", "resume", "résumé"},     // diacritics ignored
		{"loose", "Straße", "strasse"}, // primary strength only
		{"und", "x​y", "xy"},           // zero width space
	}
	for _, p := range pairs {
		for _, kt := range []string{"string", "bytes"} {
			k := MustKind("coll:" + p.cfg + ":" + kt)
			ck := k.(*collKind)
			if string(ck.SortKey([]byte(p.a))) != string(ck.SortKey([]byte(p.b))) {
				continue // not in the class for this collator
			}
			for _, order := range [][2]string{{p.a, p.b}, {p.b, p.a}} {
				ops := []Op{{Op: "insert", K: []byte(order[0]), V: 1}, {Op: "insert", K: []byte(order[1]), V: 2},
					{Op: "search", K: []byte(order[0])}, {Op: "search", K: []byte(order[1])},
					{Op: "insert", K: []byte("zzz"), V: 3}, {Op: "delete", K: []byte(order[0])}}
				note("KF2", kfRun(k, ops), k, ops)
			}
		}
	}

	b, _ := json.MarshalIndent(out, "", " ")
	if err := os.WriteFile(*flagKFOut, b, 0o644); err != nil {
		t.Fatal(err)
	}
}

// TestKF_C04 probes KF3: a collation tree misses, in Prefix(p), a stored key that begins with p when
// p ends between two non-ignorable combining marks that the collator reorders (they are stored
// in non-canonical order) and another stored key continues p's own primary weights.
func TestKF_C04(t *testing.T) {
	if *flagKFOut == "" {
		t.Skip("no -verif.kfout")
	}
	out := map[string]*kfResult{"KF3": {}}
	cases := [][]string{ // stored keys...; the last element is the prefix
		{"\u0f40\u0f74\u0f72", "\u0f40\u0f74", "\u0f40\u0f74"},
		{"\u0f40\u0f74\u0f72", "\u0f40\u0f74", "\u0f40\u0f74\u0f74", "\u0f40\u0f72", "\u0f40\u0f74"},
		{"\u0c15\u0c56\u0c55", "\u0c15\u0c56", "\u0c15\u0c56"},
	}
	for _, c := range cases {
		for _, kn := range []string{"coll:und:string", "coll:und:bytes"} {
			k := MustKind(kn)
			cfg := &Config{Property: "C04", Assert: asserts("prefix")}
			eng := NewEngine(cfg, []Kind{k})
			var ops []Op
			for i, key := range c[:len(c)-1] {
				ops = append(ops, Op{Op: "insert", K: []byte(key), V: i + 1})
			}
			p := []byte(c[len(c)-1])
			for _, op := range ops {
				_ = eng.Apply(op)
			}
			// the plain statement of C04, without the harness's exclusion of this class
			var want, got []string
			for _, en := range eng.slots[0].model.Sorted() {
				if bytes.HasPrefix(en.Raw, p) {
					want = append(want, string(en.Raw))
				}
			}
			perr := call(func() {
				eng.slots[0].sub.Prefix(p)(func(key []byte, _ int) bool { got = append(got, string(key)); return true })
			})
			r := out["KF3"]
			r.Tried++
			if perr != "" || fmt.Sprintf("%q", got) != fmt.Sprintf("%q", want) {
				r.Failed++
				if !r.StillFails {
					r.StillFails = true
					r.Example = fmt.Sprintf("stored %+q on %s: Prefix(%+q) yields %+q, the stored keys that begin with it are %+q %s", c[:len(c)-1], kn, string(p), got, want, perr)
				}
			}
		}
	}
	b, _ := json.MarshalIndent(out, "", " ")
	if err := os.WriteFile(*flagKFOut, b, 0o644); err != nil {
		t.Fatal(err)
	}
}

// quiet lets rapid.Check run as a pure generator: nothing it reports fails the test.
type quiet struct{ *testing.T }

func (q quiet) Errorf(string, ...any) {}
func (q quiet) Fatalf(string, ...any) {}
func (q quiet) Error(...any)          {}
func (q quiet) Fatal(...any)          {}
func (q quiet) Fail()                 {}
func (q quiet) FailNow()              {}
func (q quiet) Failed() bool          { return false }

package harness

// Tree kinds: a non-generic view (Subject) of every Tree[K,V] instantiation the
// library offers, plus the oracle-side notions of identity and order for each.
// Nothing in the oracle parts (Ident, Compare, SameKey) calls a go-art encoder.

import (
	"bytes"
	"encoding/binary"
	"fmt"
	"math"
	"strings"
	"unicode/utf8"

	art "github.com/Clement-Jean/go-art"
	"golang.org/x/text/collate"
	"golang.org/x/text/language"
)

// Seq is a non-generic sequence of (raw key, value id).
type Seq func(yield func(k []byte, v int) bool)

// Subject is the system under test behind a uniform, non-generic face.
// Keys travel in "raw" form (see Kind).
type Subject interface {
	Insert(k []byte, v int)
	Search(k []byte) (int, bool)
	Delete(k []byte) bool
	Minimum() ([]byte, int, bool)
	Maximum() ([]byte, int, bool)
	All() Seq
	Backward() Seq
	Prefix(p []byte) Seq
	TopK(n uint) Seq
	BottomK(n uint) Seq
	Range(a, b []byte) Seq
	Size() int
	Tree() any // the art.Tree value (for the hook walker)
	// Move stores, under key `to`, the very value object found under `from`
	// (no new value is built); it reports whether `from` was found.
	Move(from, to []byte) bool
}

// Kind describes one tree kind / key type instantiation.
//
// Raw key form: byte-string kinds use the bytes themselves; numeric kinds use 8
// big-endian bytes of a uint64 holding the value (unsigned: the value; signed:
// the sign-extended two's complement; float32: Float32bits in the low half;
// float64: Float64bits); compound kinds concatenate 8 bytes per numeric field
// followed by the bytes of the optional trailing string field.
type Kind interface {
	Name() string
	Family() string // alpha | unsigned | signed | float | collation | compound
	Canon(raw []byte) []byte
	Ident(raw []byte) string
	Compare(a, b []byte) int
	SameKey(got, want []byte) bool
	Show(raw []byte) string
	HasPrefix() bool
	HasRange() bool
	IsBytes() bool // keys are byte strings (alpha or collation)
}

// ValCodec maps value ids to values of type V and back. Back returns -1 when
// the value's content is not what To(id) would build (corruption).
type ValCodec[V any] struct {
	Name string
	To   func(id int) V
	Back func(v V) int
}

var IntVals = ValCodec[int]{Name: "int", To: func(id int) int { return id }, Back: func(v int) int { return v }}

// ---------------------------------------------------------------------------
// generic adapter

type adapter[K any, V any] struct {
	t     art.Tree[K, V]
	to    func([]byte) K
	from  func(K) []byte
	vc    ValCodec[V]
	reuse func(K) // what the caller does with its key argument after the call returned (nil: nothing)
	// []byte-keyed trees: keys handed out by the tree (and, for a pass-through codec, the inserted
	// slices) are remembered, and some lookups pass a re-slice of such a slice instead of a private
	// copy - `for k := range t.All() { t.Delete(k[:3]) }` is ordinary user code.
	handed func(K)
	alias  func([]byte) (K, bool)
}

// arg builds the key argument of a lookup: a private copy, or (aliased) a re-slice of memory
// the tree handed out, which the caller must not overwrite.
func (a *adapter[K, V]) arg(k []byte) (K, bool) {
	if a.alias != nil && !noAliasing {
		if kk, ok := a.alias(k); ok {
			return kk, true
		}
	}
	return a.to(k), false
}

// noAliasing switches the bookkeeping off: it is unsynchronised state of the harness, which the
// concurrent checks (C16) must not share between goroutines.
var noAliasing bool

// byteAliaser implements handed/alias for K = []byte.
type byteAliaser struct {
	ring  [][]byte
	n     int
	calls int
}

func (x *byteAliaser) handed(k []byte) {
	if len(k) == 0 {
		return
	}
	if len(x.ring) < 48 {
		x.ring = append(x.ring, k)
	} else {
		x.ring[x.n%48] = k
	}
	x.n++
}

func (x *byteAliaser) alias(b []byte) ([]byte, bool) {
	x.calls++
	if x.calls%3 == 0 || len(b) == 0 {
		return nil, false
	}
	for _, r := range x.ring {
		if len(b) <= len(r) && bytes.Equal(r[:len(b)], b) {
			return r[:len(b)], true
		}
	}
	return nil, false
}

// done models a caller that reuses its key buffer as soon as the call is over
// (byte-slice keys only): the argument is overwritten.
func (a *adapter[K, V]) done(k K) {
	if a.reuse != nil {
		a.reuse(k)
	}
}

func scribble(b []byte) {
	for i := range b {
		b[i] = 0xEE
	}
}

func (a *adapter[K, V]) Insert(k []byte, v int) {
	kk := a.to(k)
	a.t.Insert(kk, a.vc.To(v))
	a.done(kk)
}
func (a *adapter[K, V]) Search(k []byte) (int, bool) {
	kk, aliased := a.arg(k)
	v, ok := a.t.Search(kk)
	if !aliased {
		a.done(kk)
	}
	return a.back(v, ok), ok
}
func (a *adapter[K, V]) Move(from, to []byte) bool {
	kf := a.to(from)
	v, ok := a.t.Search(kf)
	a.done(kf)
	if !ok {
		return false
	}
	kt := a.to(to)
	a.t.Insert(kt, v)
	a.done(kt)
	return true
}
func (a *adapter[K, V]) Delete(k []byte) bool {
	kk, aliased := a.arg(k)
	ok := a.t.Delete(kk)
	if !aliased {
		a.done(kk)
	}
	return ok
}
func (a *adapter[K, V]) Size() int { return a.t.Size() }
func (a *adapter[K, V]) Tree() any { return a.t }
func (a *adapter[K, V]) back(v V, ok bool) int {
	if !ok {
		return 0
	}
	return a.vc.Back(v)
}
func (a *adapter[K, V]) Minimum() ([]byte, int, bool) {
	k, v, ok := a.t.Minimum()
	if !ok {
		return nil, 0, false
	}
	a.note(k)
	return a.from(k), a.vc.Back(v), true
}
func (a *adapter[K, V]) Maximum() ([]byte, int, bool) {
	k, v, ok := a.t.Maximum()
	if !ok {
		return nil, 0, false
	}
	a.note(k)
	return a.from(k), a.vc.Back(v), true
}
func (a *adapter[K, V]) note(k K) {
	if a.handed != nil && !noAliasing {
		a.handed(k)
	}
}
func (a *adapter[K, V]) wrap(s func(yield func(K, V) bool)) Seq {
	return func(yield func([]byte, int) bool) {
		s(func(k K, v V) bool { a.note(k); return yield(a.from(k), a.vc.Back(v)) })
	}
}
func (a *adapter[K, V]) All() Seq              { return a.wrap(a.t.All()) }
func (a *adapter[K, V]) Backward() Seq         { return a.wrap(a.t.Backward()) }
func (a *adapter[K, V]) Prefix(p []byte) Seq   { return a.wrap(a.t.Prefix(a.to(p))) }
func (a *adapter[K, V]) TopK(n uint) Seq       { return a.wrap(a.t.TopK(n)) }
func (a *adapter[K, V]) BottomK(n uint) Seq    { return a.wrap(a.t.BottomK(n)) }
func (a *adapter[K, V]) Range(x, y []byte) Seq { return a.wrap(a.t.Range(a.to(x), a.to(y))) }

func clone(b []byte) []byte {
	c := make([]byte, len(b))
	copy(c, b)
	return c
}

// ---------------------------------------------------------------------------
// byte-string kinds (alpha)

type alphaKind struct{ ktype string } // "string" | "bytes"

func (k *alphaKind) Name() string            { return "alpha:" + k.ktype }
func (k *alphaKind) Family() string          { return "alpha" }
func (k *alphaKind) Canon(raw []byte) []byte { return raw }
func (k *alphaKind) Ident(raw []byte) string { return string(raw) }
func (k *alphaKind) Compare(a, b []byte) int { return bytes.Compare(a, b) }
func (k *alphaKind) SameKey(g, w []byte) bool {
	return bytes.Equal(g, w)
}
func (k *alphaKind) Show(raw []byte) string { return showBytes(raw) }

// showBytes quotes a byte string, abbreviating very long ones.
func showBytes(raw []byte) string {
	if len(raw) <= 120 {
		return fmt.Sprintf("%q", raw)
	}
	return fmt.Sprintf("%q…(%d bytes)…%q", raw[:40], len(raw), raw[len(raw)-24:])
}
func (k *alphaKind) HasPrefix() bool { return true }
func (k *alphaKind) HasRange() bool  { return true }
func (k *alphaKind) IsBytes() bool   { return true }

// ---------------------------------------------------------------------------
// rawCmpKind: a compound tree keyed by []byte whose codec is the library's own
// pass-through AlphabeticalOrderKey[[]byte] - the user's keys already are binary
// comparable byte strings. They are self-terminated (a payload without 0x00, then
// one 0x00) and therefore prefix-free, as a compound tree requires of its codec.
// With this codec the leaf refers to the bytes the codec returned, i.e. to the
// caller's slice: the caller keeps every inserted key alive and unchanged (the
// harness does), while no call may write to any key argument (C13).

type rawCmpKind struct{}

func (k *rawCmpKind) Name() string   { return "cmpraw:bytes" }
func (k *rawCmpKind) Family() string { return "compound" }
func (k *rawCmpKind) Canon(raw []byte) []byte {
	if len(raw) == 0 {
		return raw // only ever a Range bound or a probe, never inserted
	}
	out := make([]byte, 0, len(raw)+1)
	for _, b := range raw {
		if b != 0 {
			out = append(out, b)
		}
	}
	return append(out, 0)
}
func (k *rawCmpKind) Ident(raw []byte) string  { return string(raw) } // keys reach the model in canonical form; an unterminated probe is a different (absent) key
func (k *rawCmpKind) Compare(a, b []byte) int  { return bytes.Compare(k.Canon(a), k.Canon(b)) }
func (k *rawCmpKind) SameKey(g, w []byte) bool { return bytes.Equal(g, k.Canon(w)) }
func (k *rawCmpKind) Show(raw []byte) string   { return showBytes(raw) }
func (k *rawCmpKind) HasPrefix() bool          { return false }
func (k *rawCmpKind) HasRange() bool           { return true }
func (k *rawCmpKind) IsBytes() bool            { return true }

// ---------------------------------------------------------------------------
// numeric kinds

type numKind struct {
	name  string
	class byte // 'u', 'i', 'f'
	width int  // bits
}

func rawOf(bits uint64) []byte {
	var b [8]byte
	binary.BigEndian.PutUint64(b[:], bits)
	return b[:]
}

func bitsOf(raw []byte) uint64 {
	var b [8]byte
	copy(b[8-min(8, len(raw)):], raw[max(0, len(raw)-8):])
	return binary.BigEndian.Uint64(b[:])
}

func canonBits(class byte, width int, bits uint64) uint64 {
	if width == 64 {
		return bits
	}
	mask := uint64(1)<<uint(width) - 1
	switch class {
	case 'u', 'f':
		return bits & mask
	default:
		v := bits & mask
		if v&(uint64(1)<<uint(width-1)) != 0 {
			v |= ^mask
		}
		return v
	}
}

func (k *numKind) Name() string { return k.name }
func (k *numKind) Family() string {
	switch k.class {
	case 'u':
		return "unsigned"
	case 'i':
		return "signed"
	}
	return "float"
}
func (k *numKind) Canon(raw []byte) []byte { return rawOf(canonBits(k.class, k.width, bitsOf(raw))) }
func (k *numKind) float(raw []byte) float64 {
	if k.width == 32 {
		return float64(math.Float32frombits(uint32(bitsOf(raw))))
	}
	return math.Float64frombits(bitsOf(raw))
}
func (k *numKind) Ident(raw []byte) string {
	if k.class == 'f' && math.IsNaN(k.float(raw)) {
		return "NaN"
	}
	return string(k.Canon(raw))
}

// floatRank orders NaN < -Inf < negatives < -0 < +0 < positives < +Inf using
// only IsNaN, Signbit and native comparison.
func floatCompare(x, y float64) int {
	xn, yn := math.IsNaN(x), math.IsNaN(y)
	switch {
	case xn && yn:
		return 0
	case xn:
		return -1
	case yn:
		return 1
	}
	if x < y {
		return -1
	}
	if x > y {
		return 1
	}
	// equal under ==: only the two zeros differ
	xs, ys := math.Signbit(x), math.Signbit(y)
	switch {
	case xs == ys:
		return 0
	case xs:
		return -1
	}
	return 1
}

func numCompare(class byte, a, b uint64, fa, fb float64) int {
	switch class {
	case 'u':
		if a < b {
			return -1
		} else if a > b {
			return 1
		}
		return 0
	case 'i':
		if int64(a) < int64(b) {
			return -1
		} else if int64(a) > int64(b) {
			return 1
		}
		return 0
	}
	return floatCompare(fa, fb)
}

func (k *numKind) Compare(a, b []byte) int {
	ca, cb := k.Canon(a), k.Canon(b)
	if k.class == 'f' {
		return floatCompare(k.float(ca), k.float(cb))
	}
	return numCompare(k.class, bitsOf(ca), bitsOf(cb), 0, 0)
}
func (k *numKind) SameKey(g, w []byte) bool {
	if k.class == 'f' && math.IsNaN(k.float(w)) {
		return math.IsNaN(k.float(g))
	}
	return bytes.Equal(k.Canon(g), k.Canon(w))
}
func (k *numKind) Show(raw []byte) string {
	b := bitsOf(k.Canon(raw))
	switch k.class {
	case 'u':
		return fmt.Sprintf("%d", b)
	case 'i':
		return fmt.Sprintf("%d", int64(b))
	}
	return fmt.Sprintf("%v(0x%x)", k.float(raw), b)
}
func (k *numKind) HasPrefix() bool { return false }
func (k *numKind) HasRange() bool  { return true }
func (k *numKind) IsBytes() bool   { return false }

var numKinds = map[string]*numKind{
	"u8": {"u8", 'u', 8}, "u16": {"u16", 'u', 16}, "u32": {"u32", 'u', 32}, "u64": {"u64", 'u', 64},
	"uint": {"uint", 'u', 32 << (^uint(0) >> 63)},
	"i8":   {"i8", 'i', 8}, "i16": {"i16", 'i', 16}, "i32": {"i32", 'i', 32}, "i64": {"i64", 'i', 64},
	"int": {"int", 'i', 32 << (^uint(0) >> 63)},
	"f32": {"f32", 'f', 32}, "f64": {"f64", 'f', 64},
}

// ---------------------------------------------------------------------------
// collation kinds

// collCfg is one collator configuration used for collation trees.
type collCfg struct {
	tag  language.Tag
	opts []collate.Option
}

var collCfgs = map[string]collCfg{
	"und":     {language.Und, nil},
	"en-num":  {language.English, []collate.Option{collate.Numeric}},
	"de":      {language.German, nil},
	"sv":      {language.Swedish, nil},
	"es-trad": {language.MustParse("es-u-co-trad"), nil},
	"zh":      {language.Chinese, nil},
	"ja":      {language.Japanese, nil},
	"fr-CA":   {language.CanadianFrench, nil},
	"ic":      {language.Und, []collate.Option{collate.IgnoreCase}},
	"id":      {language.Und, []collate.Option{collate.IgnoreDiacritics}},
	"iw":      {language.Und, []collate.Option{collate.IgnoreWidth}},
	"loose":   {language.Und, []collate.Option{collate.Loose}},
}

// CollatorConfigs returns constructors: each call yields a fresh, independent collator.
var CollatorConfigs = func() map[string]func() *collate.Collator {
	m := map[string]func() *collate.Collator{}
	for name, c := range collCfgs {
		c := c
		m[name] = func() *collate.Collator { return collate.New(c.tag, c.opts...) }
	}
	return m
}()

type collKind struct {
	cfg   string
	ktype string // string | bytes | runes
	c     *collate.Collator
	loose *collate.Collator // primary strength only, same language
	buf   collate.Buffer
	lbuf  collate.Buffer
}

func newCollKind(cfg, ktype string) (*collKind, error) {
	mk, ok := CollatorConfigs[cfg]
	if !ok {
		return nil, fmt.Errorf("unknown collator config %q", cfg)
	}
	cc := collCfgs[cfg]
	lopts := append(append([]collate.Option(nil), cc.opts...), collate.Loose)
	return &collKind{cfg: cfg, ktype: ktype, c: mk(), loose: collate.New(cc.tag, lopts...)}, nil
}

func (k *collKind) Name() string            { return "coll:" + k.cfg + ":" + k.ktype }
func (k *collKind) Family() string          { return "collation" }
func (k *collKind) Canon(raw []byte) []byte { return raw }
func (k *collKind) Ident(raw []byte) string { return string(raw) }
func (k *collKind) Compare(a, b []byte) int { return k.c.Compare(a, b) }
func (k *collKind) SameKey(g, w []byte) bool {
	return bytes.Equal(g, w)
}
func (k *collKind) Show(raw []byte) string { return showBytes(raw) }
func (k *collKind) HasPrefix() bool        { return true }
func (k *collKind) HasRange() bool         { return false }
func (k *collKind) IsBytes() bool          { return true }

// SortKey returns the independent collator's sort key of s (fresh copy).
func (k *collKind) SortKey(s []byte) []byte {
	k.buf.Reset()
	return clone(k.c.Key(&k.buf, s))
}

// PrimaryKey returns the primary-strength sort key of s (fresh copy).
func (k *collKind) PrimaryKey(s []byte) []byte {
	k.lbuf.Reset()
	return clone(k.loose.Key(&k.lbuf, s))
}

// ---------------------------------------------------------------------------
// compound kinds

// Tuple is the key type of compound trees built by the harness.
type Tuple struct {
	N [4]uint64 // numeric fields: canonical bits as in the raw form
	S string    // optional trailing string field
}

type compoundKind struct {
	fields []*numKind // 1..4 numeric fields (may be 0 when hasStr)
	hasStr bool
	// asym: the codec's two results differ - the first is the key in a plain, not order-preserving
	// form (as the library's own collation codec returns the original string first), the second the
	// binary-comparable form. The tree must work with the second throughout.
	asym bool
}

func (k *compoundKind) Name() string {
	var parts []string
	for _, f := range k.fields {
		parts = append(parts, f.name)
	}
	if k.hasStr {
		parts = append(parts, "str")
	}
	if k.asym {
		parts = append(parts, "asym")
	}
	return "cmp:" + strings.Join(parts, ",")
}
func (k *compoundKind) Family() string { return "compound" }
func (k *compoundKind) split(raw []byte) (nums [][]byte, s []byte) {
	for range k.fields {
		var f []byte
		if len(raw) >= 8 {
			f, raw = raw[:8], raw[8:]
		} else {
			f, raw = append(make([]byte, 8-len(raw)), raw...), nil
		}
		nums = append(nums, f)
	}
	if k.hasStr {
		s = raw
	}
	return
}
func (k *compoundKind) Canon(raw []byte) []byte {
	nums, s := k.split(raw)
	var out []byte
	for i, f := range k.fields {
		out = append(out, f.Canon(nums[i])...)
	}
	return append(out, s...)
}
func (k *compoundKind) Ident(raw []byte) string {
	nums, s := k.split(raw)
	var sb strings.Builder
	for i, f := range k.fields {
		id := f.Ident(nums[i])
		fmt.Fprintf(&sb, "%d:%s|", len(id), id)
	}
	sb.Write(s)
	return sb.String()
}
func (k *compoundKind) Compare(a, b []byte) int {
	an, as := k.split(a)
	bn, bs := k.split(b)
	for i, f := range k.fields {
		if c := f.Compare(an[i], bn[i]); c != 0 {
			return c
		}
	}
	return bytes.Compare(as, bs)
}
func (k *compoundKind) SameKey(g, w []byte) bool {
	gn, gs := k.split(g)
	wn, ws := k.split(w)
	for i, f := range k.fields {
		if !f.SameKey(gn[i], wn[i]) {
			return false
		}
	}
	return bytes.Equal(gs, ws)
}
func (k *compoundKind) Show(raw []byte) string {
	nums, s := k.split(raw)
	var parts []string
	for i, f := range k.fields {
		parts = append(parts, f.Show(nums[i]))
	}
	if k.hasStr {
		parts = append(parts, fmt.Sprintf("%q", s))
	}
	return "(" + strings.Join(parts, ",") + ")"
}
func (k *compoundKind) HasPrefix() bool { return false }
func (k *compoundKind) HasRange() bool  { return true }
func (k *compoundKind) IsBytes() bool   { return false }

func (k *compoundKind) toTuple(raw []byte) Tuple {
	nums, s := k.split(raw)
	var t Tuple
	for i, f := range k.fields {
		t.N[i] = bitsOf(f.Canon(nums[i]))
	}
	t.S = string(s)
	return t
}
func (k *compoundKind) fromTuple(t Tuple) []byte {
	var out []byte
	for i := range k.fields {
		out = append(out, rawOf(t.N[i])...)
	}
	if k.hasStr {
		out = append(out, t.S...)
	}
	return out
}

// tupleCodec is a user codec built, as the library documents, by concatenating
// the library's exported per-type encodings, optionally followed by one
// 0x00-terminated string field.
type tupleCodec struct{ k *compoundKind }

func encodeField(f *numKind, bits uint64) []byte {
	var b []byte
	switch f.name {
	case "u8":
		_, b = art.UnsignedBinaryKey[uint8]{}.Transform(uint8(bits))
	case "u16":
		_, b = art.UnsignedBinaryKey[uint16]{}.Transform(uint16(bits))
	case "u32":
		_, b = art.UnsignedBinaryKey[uint32]{}.Transform(uint32(bits))
	case "u64":
		_, b = art.UnsignedBinaryKey[uint64]{}.Transform(bits)
	case "uint":
		_, b = art.UnsignedBinaryKey[uint]{}.Transform(uint(bits))
	case "i8":
		_, b = art.SignedBinaryKey[int8]{}.Transform(int8(bits))
	case "i16":
		_, b = art.SignedBinaryKey[int16]{}.Transform(int16(bits))
	case "i32":
		_, b = art.SignedBinaryKey[int32]{}.Transform(int32(bits))
	case "i64":
		_, b = art.SignedBinaryKey[int64]{}.Transform(int64(bits))
	case "int":
		_, b = art.SignedBinaryKey[int]{}.Transform(int(int64(bits)))
	case "f32":
		_, b = art.FloatBinaryKey[float32]{}.Transform(math.Float32frombits(uint32(bits)))
	case "f64":
		_, b = art.FloatBinaryKey[float64]{}.Transform(math.Float64frombits(bits))
	default:
		panic("unknown field type " + f.name)
	}
	// The result belongs to the caller, who may append to it (a codec that concatenates fields does):
	// whatever spare capacity it has is written to here, as that append would.
	for spare := b[len(b):cap(b)]; len(spare) > 0; spare = spare[1:] {
		spare[0] = 0xA5
	}
	return b
}

func decodeField(f *numKind, b []byte) uint64 {
	switch f.name {
	case "u8":
		return uint64(art.UnsignedBinaryKey[uint8]{}.Restore(b))
	case "u16":
		return uint64(art.UnsignedBinaryKey[uint16]{}.Restore(b))
	case "u32":
		return uint64(art.UnsignedBinaryKey[uint32]{}.Restore(b))
	case "u64":
		return art.UnsignedBinaryKey[uint64]{}.Restore(b)
	case "uint":
		return uint64(art.UnsignedBinaryKey[uint]{}.Restore(b))
	case "i8":
		return uint64(int64(art.SignedBinaryKey[int8]{}.Restore(b)))
	case "i16":
		return uint64(int64(art.SignedBinaryKey[int16]{}.Restore(b)))
	case "i32":
		return uint64(int64(art.SignedBinaryKey[int32]{}.Restore(b)))
	case "i64":
		return uint64(art.SignedBinaryKey[int64]{}.Restore(b))
	case "int":
		return uint64(int64(art.SignedBinaryKey[int]{}.Restore(b)))
	case "f32":
		return uint64(math.Float32bits(art.FloatBinaryKey[float32]{}.Restore(b)))
	case "f64":
		return math.Float64bits(art.FloatBinaryKey[float64]{}.Restore(b))
	}
	panic("unknown field type " + f.name)
}

func (c tupleCodec) Transform(t Tuple) ([]byte, []byte) {
	var b []byte
	for i, f := range c.k.fields {
		if e := encodeField(f, t.N[i]); i == 0 {
			b = e // the first field's encoding, as the library returned it; the others are appended to it
		} else {
			b = append(b, e...)
		}
	}
	if c.k.hasStr {
		_, s := art.AlphabeticalOrderKey[string]{}.Transform(t.S)
		b = append(b, s...)
		b = append(b, 0)
	}
	if c.k.asym {
		plain := []byte{0xEE}
		for i := len(b) - 1; i >= 0; i-- {
			plain = append(plain, b[i]^0x5A)
		}
		return plain, b
	}
	if len(b)%2 == 1 {
		return clone(b), b // equal content in two distinct slices: a codec need not return one slice twice
	}
	return b, b
}

func (c tupleCodec) Restore(b []byte) Tuple {
	var t Tuple
	for i, f := range c.k.fields {
		w := f.width / 8
		t.N[i] = decodeField(f, b[:w])
		b = b[w:]
	}
	if c.k.hasStr {
		t.S = art.AlphabeticalOrderKey[string]{}.Restore(b[:len(b)-1])
	}
	return t
}

// ---------------------------------------------------------------------------
// parsing kind names, building subjects

// ParseKind builds the Kind named by spec (the inverse of Kind.Name).
func ParseKind(spec string) (Kind, error) {
	switch {
	case spec == "alpha:string" || spec == "alpha:bytes":
		return &alphaKind{ktype: strings.TrimPrefix(spec, "alpha:")}, nil
	case strings.HasPrefix(spec, "coll:"):
		p := strings.Split(spec, ":")
		if len(p) != 3 || (p[2] != "string" && p[2] != "bytes" && p[2] != "runes") {
			return nil, fmt.Errorf("bad collation kind %q", spec)
		}
		return newCollKind(p[1], p[2])
	case spec == "cmpraw:bytes":
		return &rawCmpKind{}, nil
	case strings.HasPrefix(spec, "cmp:"):
		k := &compoundKind{}
		for _, f := range strings.Split(strings.TrimPrefix(spec, "cmp:"), ",") {
			if f == "str" {
				k.hasStr = true
				continue
			}
			if f == "asym" {
				k.asym = true
				continue
			}
			nk, ok := numKinds[f]
			if !ok || k.hasStr {
				return nil, fmt.Errorf("bad compound kind %q", spec)
			}
			k.fields = append(k.fields, nk)
		}
		if len(k.fields) > 4 || (len(k.fields) == 0 && !k.hasStr) {
			return nil, fmt.Errorf("bad compound kind %q", spec)
		}
		return k, nil
	}
	if nk, ok := numKinds[spec]; ok {
		return nk, nil
	}
	return nil, fmt.Errorf("unknown kind %q", spec)
}

func MustKind(spec string) Kind {
	k, err := ParseKind(spec)
	if err != nil {
		panic(err)
	}
	return k
}

func numAdapter[K any, V any](t art.Tree[K, V], vc ValCodec[V], to func(uint64) K, from func(K) uint64) Subject {
	return &adapter[K, V]{t: t, vc: vc,
		to:   func(raw []byte) K { return to(bitsOf(raw)) },
		from: func(k K) []byte { return rawOf(from(k)) },
	}
}

// NewSubject creates an empty tree of the given kind with value type V.
func NewSubject[V any](k Kind, vc ValCodec[V]) Subject {
	switch kk := k.(type) {
	case *alphaKind:
		if kk.ktype == "string" {
			return &adapter[string, V]{t: art.NewAlphaSortedTree[string, V](), vc: vc,
				to: func(b []byte) string { return string(b) }, from: func(s string) []byte { return []byte(s) }}
		}
		x := &byteAliaser{}
		return &adapter[[]byte, V]{t: art.NewAlphaSortedTree[[]byte, V](), vc: vc,
			to: clone, from: clone, reuse: scribble, handed: x.handed, alias: x.alias}
	case *collKind:
		c := CollatorConfigs[kk.cfg]() // the tree's own collator instance
		switch kk.ktype {
		case "string":
			var t art.Tree[string, V]
			if kk.cfg == "und" {
				t = art.NewCollationSortedTree[string, V]()
			} else {
				t = art.NewCollationSortedTree[string, V](art.WithCollator[string, V](c))
			}
			return &adapter[string, V]{t: t, vc: vc,
				to: func(b []byte) string { return string(b) }, from: func(s string) []byte { return []byte(s) }}
		case "bytes":
			var t art.Tree[[]byte, V]
			if kk.cfg == "und" {
				t = art.NewCollationSortedTree[[]byte, V]()
			} else {
				t = art.NewCollationSortedTree[[]byte, V](art.WithCollator[[]byte, V](c))
			}
			x := &byteAliaser{}
			return &adapter[[]byte, V]{t: t, vc: vc, to: clone, from: clone, reuse: scribble, handed: x.handed, alias: x.alias}
		default: // runes: only the default collator can be configured (WithCollator is declared for chars)
			return &adapter[[]rune, V]{t: art.NewCollationSortedTree[[]rune, V](), vc: vc,
				to:   func(b []byte) []rune { return []rune(string(b)) },
				from: func(r []rune) []byte { return []byte(string(r)) }}
		}
	case *rawCmpKind:
		// no buffer reuse here: with the pass-through codec the stored keys are the caller's slices
		x := &byteAliaser{}
		// the inserted slices are what the tree refers to with this codec: they count as handed out too
		return &adapter[[]byte, V]{t: art.NewCompoundTree[[]byte, V](art.AlphabeticalOrderKey[[]byte]{}), vc: vc,
			to: func(b []byte) []byte {
				c := clone(b)
				if !noAliasing {
					x.handed(c)
				}
				return c
			}, from: clone, handed: x.handed, alias: x.alias}
	case *compoundKind:
		return &adapter[Tuple, V]{t: art.NewCompoundTree[Tuple, V](tupleCodec{kk}), vc: vc,
			to: kk.toTuple, from: kk.fromTuple}
	case *numKind:
		switch kk.name {
		case "u8":
			return numAdapter(art.NewUnsignedBinaryTree[uint8, V](), vc, func(b uint64) uint8 { return uint8(b) }, func(k uint8) uint64 { return uint64(k) })
		case "u16":
			return numAdapter(art.NewUnsignedBinaryTree[uint16, V](), vc, func(b uint64) uint16 { return uint16(b) }, func(k uint16) uint64 { return uint64(k) })
		case "u32":
			return numAdapter(art.NewUnsignedBinaryTree[uint32, V](), vc, func(b uint64) uint32 { return uint32(b) }, func(k uint32) uint64 { return uint64(k) })
		case "u64":
			return numAdapter(art.NewUnsignedBinaryTree[uint64, V](), vc, func(b uint64) uint64 { return b }, func(k uint64) uint64 { return k })
		case "uint":
			return numAdapter(art.NewUnsignedBinaryTree[uint, V](), vc, func(b uint64) uint { return uint(b) }, func(k uint) uint64 { return uint64(k) })
		case "i8":
			return numAdapter(art.NewSignedBinaryTree[int8, V](), vc, func(b uint64) int8 { return int8(b) }, func(k int8) uint64 { return uint64(int64(k)) })
		case "i16":
			return numAdapter(art.NewSignedBinaryTree[int16, V](), vc, func(b uint64) int16 { return int16(b) }, func(k int16) uint64 { return uint64(int64(k)) })
		case "i32":
			return numAdapter(art.NewSignedBinaryTree[int32, V](), vc, func(b uint64) int32 { return int32(b) }, func(k int32) uint64 { return uint64(int64(k)) })
		case "i64":
			return numAdapter(art.NewSignedBinaryTree[int64, V](), vc, func(b uint64) int64 { return int64(b) }, func(k int64) uint64 { return uint64(k) })
		case "int":
			return numAdapter(art.NewSignedBinaryTree[int, V](), vc, func(b uint64) int { return int(int64(b)) }, func(k int) uint64 { return uint64(int64(k)) })
		case "f32":
			return numAdapter(art.NewFloatBinaryTree[float32, V](), vc,
				func(b uint64) float32 { return math.Float32frombits(uint32(b)) },
				func(k float32) uint64 { return uint64(math.Float32bits(k)) })
		case "f64":
			return numAdapter(art.NewFloatBinaryTree[float64, V](), vc, math.Float64frombits, math.Float64bits)
		}
	}
	panic("NewSubject: unsupported kind " + k.Name())
}

// validRunes reports whether b round-trips through []rune (valid UTF-8).
func validRunes(b []byte) bool { return utf8.Valid(b) }

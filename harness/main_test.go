package harness

import (
	"flag"
	"fmt"
	"os"
	"path/filepath"
	"sort"
	"strconv"
	"testing"
	"time"

	"pgregory.net/rapid"
)

var (
	flagStats     = flag.String("verif.stats", "", "write run statistics (JSON) to this file")
	flagReplayDir = flag.String("verif.replaydir", "", "directory for minimal failing traces")
	flagReplay    = flag.String("verif.replay", "", "replay this trace file instead of generating")
	flagTier      = flag.String("verif.tier", "quick", "quick | thorough")
	flagShard     = flag.Int("verif.shard", 0, "shard index (thorough tier)")
	flagShards    = flag.Int("verif.shards", 1, "number of shards")
	flagScale     = flag.Float64("verif.scale", 1, "multiplier for enumerative budgets")
	flagSeed      = flag.Uint64("verif.seed", 1, "seed for the non-rapid enumerations")
	flagKFOut     = flag.String("verif.kfout", "", "known-finding probe results (JSON)")
	flagRegress   = flag.String("verif.regressdir", "", "directory of saved failing traces that are replayed first")
)

func TestMain(m *testing.M) {
	flag.Parse()
	code := m.Run()
	var fails []failureOut
	if failures.best != nil || len(failures.others) > 0 {
		var all []*Trace
		if failures.best != nil {
			all = append(all, minimize(failures.best))
		}
		all = append(all, failures.others...)
		for _, tr := range all {
			path := ""
			if *flagReplayDir != "" {
				_ = os.MkdirAll(*flagReplayDir, 0o755)
				path = filepath.Join(*flagReplayDir, fmt.Sprintf("%s-%016x.json", tr.Property, tr.Hash()))
				if err := tr.Save(path); err != nil {
					fmt.Fprintln(os.Stderr, "cannot save replay:", err)
				}
			}
			fails = append(fails, failureOut{Replay: path, Msg: tr.Failure, NOps: len(tr.Ops)})
			fmt.Printf("VERIF-FAIL property=%s replay=%s msg=%q\n", tr.Property, path, tr.Failure)
		}
	}
	if *flagStats != "" {
		if os.Getenv("VERIF_FUZZ_FAILDIR") != "" { // one statistics file per fuzz process
			*flagStats = fmt.Sprintf("%s.%d", *flagStats, os.Getpid())
		}
		if err := stats.write(*flagStats, fails); err != nil {
			fmt.Fprintln(os.Stderr, "cannot write stats:", err)
			if code == 0 {
				code = 2
			}
		}
	}
	os.Exit(code)
}

// replayTrace re-executes a concrete trace without rapid. It returns the
// violation (or nil).
func replayTrace(tr *Trace) error {
	if _, _, _, ok := scaleParams(tr); ok {
		return replayScale(tr)
	}
	if tr.Params["mode"] == "keylens" {
		return replayKeyLengths(tr)
	}
	if tr.Params["mode"] == "huge" {
		return replayHuge(tr)
	}
	if tr.Params["mode"] == "runeprobes" {
		return replayRuneProbes(tr)
	}
	spec := specByID(tr.Property)
	if spec == nil {
		return fmt.Errorf("no history spec for property %q", tr.Property)
	}
	cfg := spec.Cfg
	cfg.ValType = tr.Variant
	var kinds []Kind
	for _, kn := range tr.Kinds {
		k, err := ParseKind(kn)
		if err != nil {
			return err
		}
		kinds = append(kinds, k)
	}
	eng := NewEngine(&cfg, kinds)
	if ph, err := strconv.Atoi(tr.Params["audit_phase"]); err == nil {
		eng.AuditPhase = ph
	}
	for _, op := range tr.Ops {
		if err := eng.Apply(op); err != nil {
			if err == ErrAbort {
				return nil
			}
			return err
		}
	}
	if err := eng.Finish(); err != nil && err != ErrAbort {
		return err
	}
	return nil
}

// minimize shrinks a failing concrete trace by removing ops while it still
// fails (delta debugging on the op list), independent of rapid's shrinker.
func minimize(tr *Trace) *Trace {
	fails := func(ops []Op) (string, bool) {
		c := *tr
		c.Ops = ops
		err := replayTrace(&c)
		if v, ok := err.(*Violation); ok {
			return v.Msg, true
		}
		return "", false
	}
	if _, ok := fails(tr.Ops); !ok {
		return tr // not reproducible by replay (e.g. state-dependent): keep as is
	}
	ops := append([]Op(nil), tr.Ops...)
	msg := tr.Failure
	budget := 4000
	deadline := time.Now().Add(60 * time.Second) // shrinking only: a shorter replay is nicer, the verdict does not depend on it
	for chunk := len(ops) / 2; chunk >= 1 && budget > 0 && time.Now().Before(deadline); {
		removed := false
		for i := 0; i+chunk <= len(ops) && budget > 0 && time.Now().Before(deadline); {
			cand := append(append([]Op(nil), ops[:i]...), ops[i+chunk:]...)
			budget--
			if m, ok := fails(cand); ok {
				ops, msg, removed = cand, m, true
			} else {
				i += chunk
			}
		}
		if !removed || chunk > len(ops) {
			chunk /= 2
		}
		if chunk > len(ops) {
			chunk = len(ops)
		}
	}
	out := *tr
	out.Ops = ops
	out.Failure = msg
	return &out
}

func TestReplay(t *testing.T) {
	if *flagReplay == "" {
		t.Skip("no -verif.replay")
	}
	tr, err := LoadTrace(*flagReplay)
	if err != nil {
		t.Fatal(err)
	}
	if fn, ok := customReplays[tr.Property]; ok {
		if err := fn(tr); err != nil {
			fmt.Printf("REPLAY-FAIL property=%s: %v\n", tr.Property, err)
			t.Fatal(err)
		}
		return
	}
	if err := replayTrace(tr); err != nil {
		fmt.Printf("REPLAY-FAIL property=%s: %v\n", tr.Property, err)
		t.Fatal(err)
	}
}

// customReplays holds replay functions of the non-history checks.
var customReplays = map[string]func(*Trace) error{}

// replayRegressions replays every saved trace of the property (the minimal
// reproductions of earlier findings) before anything is generated.
func replayRegressions(t *testing.T, id string) {
	if *flagRegress == "" || *flagShard != 0 {
		return
	}
	files, _ := filepath.Glob(filepath.Join(*flagRegress, "*.json"))
	sort.Strings(files)
	n := 0
	for _, f := range files {
		tr, err := LoadTrace(f)
		if err != nil || tr.Property != id {
			continue
		}
		var rerr error
		if fn, ok := customReplays[id]; ok {
			rerr = fn(tr)
		} else {
			rerr = replayTrace(tr)
		}
		n++
		if rerr != nil {
			tr.Failure = "saved regression trace fails again: " + rerr.Error()
			failures.addOther(tr)
			t.Fatalf("%s: %s (%s)", id, tr.Failure, f)
		}
	}
	stats.mu.Lock()
	stats.Extra["regression_traces_replayed"] = n
	stats.mu.Unlock()
}

func runSpec(t *testing.T, id string) {
	spec := specByID(id)
	if spec == nil {
		t.Fatalf("no spec %s", id)
	}
	stats.Property = id
	stats.Rule = spec.Rule
	replayRegressions(t, id)
	rapid.Check(t, func(rt *rapid.T) { RunHistory(rt, spec) })
}

package harness

import (
	"sort"
)

// Model is the reference map: identity -> (raw key as inserted, value id).
// Reads that depend on order always go through Sorted(), never map iteration.
type Model struct {
	kind   Kind
	m      map[string]*Entry
	sorted []*Entry
	dirty  bool
}

type Entry struct {
	Raw []byte
	V   int
}

func NewModel(k Kind) *Model { return &Model{kind: k, m: map[string]*Entry{}} }

func (m *Model) Len() int { return len(m.m) }

func (m *Model) Get(raw []byte) (*Entry, bool) {
	e, ok := m.m[m.kind.Ident(raw)]
	return e, ok
}

// Put returns true when the key was new.
func (m *Model) Put(raw []byte, v int) bool {
	id := m.kind.Ident(raw)
	if e, ok := m.m[id]; ok {
		e.V = v // an overwrite only replaces the value; the stored key keeps its first form
		return false
	}
	m.m[id] = &Entry{Raw: clone(m.kind.Canon(raw)), V: v}
	m.dirty = true
	return true
}

func (m *Model) Delete(raw []byte) bool {
	id := m.kind.Ident(raw)
	if _, ok := m.m[id]; !ok {
		return false
	}
	delete(m.m, id)
	m.dirty = true
	return true
}

// Sorted returns the entries in the kind's declared order (ascending).
func (m *Model) Sorted() []*Entry {
	if m.dirty || m.sorted == nil {
		s := make([]*Entry, 0, len(m.m))
		ids := make([]string, 0, len(m.m))
		for id := range m.m {
			ids = append(ids, id)
		}
		sort.Strings(ids) // fix the starting permutation: no dependence on map order
		for _, id := range ids {
			s = append(s, m.m[id])
		}
		sort.SliceStable(s, func(i, j int) bool { return m.kind.Compare(s[i].Raw, s[j].Raw) < 0 })
		m.sorted = s
		m.dirty = false
	}
	return m.sorted
}

func (m *Model) Reversed() []*Entry {
	s := m.Sorted()
	r := make([]*Entry, len(s))
	for i := range s {
		r[len(s)-1-i] = s[i]
	}
	return r
}

func firstN(s []*Entry, n uint64) []*Entry {
	if uint64(len(s)) <= n {
		return s
	}
	return s[:n]
}

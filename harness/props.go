package harness

import (
	"pgregory.net/rapid"
)

var numericFamilies = []string{"unsigned", "signed", "float"}

var baseMix = Mix{InsertNew: 10, Overwrite: 3, DeletePresent: 6, DeleteAbsent: 3, SearchPresent: 2, SearchAbsent: 4,
	BulkInsert: 2, BulkDelete: 2, DeleteAll: 1, Audit: 1}

func withMix(m Mix, f func(*Mix)) Mix { f(&m); return m }

// lightVariants: most histories store ints; some store another value type (a defect tied to the
// value's size or layout - copying a value as one word, a leaf layout assumed for every V - must
// not hide behind V = int). The collector-related checks on values are C18's.
var lightVariants = []string{"", "", "", "", "", "string", "big", "empty", "bytes", "any", "i32", "u8", "arr12"}

var specs = []*PropSpec{
	{
		ID: "C01",
		Cfg: Config{Property: "C01", Assert: asserts("insert", "delete", "search"),
			AuditOps: []string{"sweep"}, AuditEvery: 6, ExcludeKF: true, Census: true},
		Mix:       withMix(baseMix, func(m *Mix) { m.SearchAbsent = 7; m.DeleteAbsent = 5; m.SearchPresent = 3 }),
		Families:  allFamilies,
		Variants:  lightVariants,
		Templates: []string{"longpath", "longpath", "fanupdown", "emptied"},
		Rule: "rapid state machine over all tree kinds and key-universe profiles; non-trivial = the history deletes a present key and later searches or re-inserts that same key, " +
			"and probes (Search/Delete) an absent key that shares at least one leading byte with a stored key on a tree of >= 2 keys; distinct by hash of the concrete op trace",
		NonTriv: func(f map[string]int) bool {
			return (f["reinsert_after_delete"] > 0 || f["search_after_delete"] > 0) && f["absent_shares_prefix"] > 0
		},
	},
	{
		ID: "C02",
		Cfg: Config{Property: "C02", Assert: asserts("all", "backward"),
			AuditOps: []string{"scan"}, AuditEvery: 3, ExcludeKF: true, Census: true},
		Mix:       withMix(baseMix, func(m *Mix) { m.Scan = 4; m.SearchAbsent = 0; m.SearchPresent = 0; m.DeleteAbsent = 1 }),
		Families:  allFamilies,
		Variants:  lightVariants,
		Templates: []string{"fanupdown", "fanupdown", "emptied"},
		Rule: "same history generator as C01 (inserts, overwrites, deletes, bulk grow/shrink) with All() and Backward() compared element by element (key form and value) with the independently sorted model after every 3rd op and at the end; " +
			"non-trivial = a scan on >= 3 stored keys that happens after at least one successful delete; distinct by trace hash",
		NonTriv: func(f map[string]int) bool { return f["scan_ge3_after_delete"] > 0 },
	},
	{
		ID:  "C03",
		Cfg: Config{Property: "C03", Assert: asserts("range"), AuditOps: []string{"rangeaudit"}, AuditEvery: 9, ExcludeKF: true, Census: true},
		Mix: withMix(baseMix, func(m *Mix) {
			m.Range = 14
			m.SearchAbsent, m.SearchPresent, m.DeleteAbsent, m.Overwrite = 0, 0, 1, 1
		}),
		Families:  []string{"alpha", "alpha", "alpha", "unsigned", "signed", "float", "compound"},
		Templates: []string{"rangedecoy", "rangedecoy", "emptied", "fanupdown"},
		Rule: "histories with Range(a,b) calls whose bounds are stored keys, neighbours, below-min / above-max, equal, reversed, empty (byte strings), or keys sharing a long prefix behind a decoy subtree; " +
			"non-trivial = a Range on a tree of >= 4 keys whose expected result is a non-empty proper subset; distinct by trace hash. Carve-outs of the property are skipped and counted",
		NonTriv: func(f map[string]int) bool { return f["range_nontrivial"] > 0 },
	},
	{
		ID:  "C04",
		Cfg: Config{Property: "C04", Assert: asserts("prefix"), AuditOps: []string{"prefixaudit"}, AuditEvery: 9, ExcludeKF: true, Census: true},
		Mix: withMix(baseMix, func(m *Mix) {
			m.Prefix = 14
			m.SearchAbsent, m.SearchPresent, m.DeleteAbsent, m.Overwrite = 0, 0, 1, 1
		}),
		Profiles:  []string{"dense", "dense", "fan", "fan", "deep", "nul"},
		CollProfs: []string{"plaintext", "plaintext", "textfan"},
		Templates: []string{"prefixsibling", "prefixsibling", "longpath", "fanupdown"},
		KindOf: func(t *rapid.T) Kind {
			if drawInt(t, 0, 2, "c04fam") < 2 {
				return MustKind(pick(t, []string{"alpha:string", "alpha:bytes"}, "akind"))
			}
			kt := pick(t, []string{"string", "bytes", "runes"}, "ckt")
			cfg := "und"
			if kt != "runes" {
				cfg = pick(t, []string{"und", "de", "sv", "ja", "zh", "fr-CA"}, "ccfg")
			}
			return MustKind("coll:" + cfg + ":" + kt)
		},
		Rule: "histories on byte-string trees and on collation trees over contraction-free text with Prefix(p) for p empty / stored / cut inside, at the end of, or beyond a compressed path / extended / spliced from a sibling subtree / longer than every key / unmatched; " +
			"non-trivial = a Prefix whose expected result is a non-empty proper subset while the tree holds a node with more than 4 children or a compressed path longer than 10 bytes; distinct by trace hash",
		NonTriv: func(f map[string]int) bool {
			return f["prefix_proper_subset"] > 0 && (f["has_node16"]+f["has_node48"]+f["has_node256"]+f["has_long_path"] > 0)
		},
	},
	{
		ID:  "C05",
		Cfg: Config{Property: "C05", Assert: asserts("min", "max", "topk", "bottomk"), AuditOps: []string{"extremes", "topbottom"}, AuditEvery: 7, ExcludeKF: true, Census: true},
		Mix: withMix(baseMix, func(m *Mix) {
			m.TopBottom, m.Extremes = 8, 8
			m.SearchAbsent, m.SearchPresent, m.DeleteAbsent = 0, 0, 1
			m.DeleteAll = 2
		}),
		Families:  allFamilies,
		Variants:  lightVariants,
		Templates: []string{"emptied", "fanupdown"},
		Rule: "histories over all kinds with Minimum/Maximum and TopK/BottomK(n), n in {0,1,size-1,size,size+1,size+17,2^32,random}; " +
			"non-trivial = extremes were asserted both on a tree of size 0 or 1 and on a tree of size >= 2, after at least one successful delete; distinct by trace hash",
		NonTriv: func(f map[string]int) bool {
			return (f["extreme_size_0"]+f["extreme_size_1"] > 0) && f["extreme_size_many"] > 0 && f["delete_present"] > 0
		},
	},
	{
		ID: "C06",
		Cfg: Config{Property: "C06", Assert: asserts("size"), AuditOps: []string{"sizecheck"}, AuditEvery: 1,
			ExcludeKF: true, Census: true},
		Mix:       withMix(baseMix, func(m *Mix) { m.Size = 2; m.SearchAbsent = 1; m.SearchPresent = 1 }),
		Families:  allFamilies,
		Variants:  lightVariants,
		Templates: []string{"longpath", "longpath", "fanupdown", "emptied"},
		Rule: "histories over all kinds with Size() compared after every single op with the model cardinality, the number of pairs All() yields and the number of reachable leaves; " +
			"non-trivial = the history exercised at least 3 of the 4 insertion paths (empty tree, leaf split, compressed-path split, plain child add; classified from consecutive structural dumps) and one failed delete; distinct by trace hash",
		NonTriv: func(f map[string]int) bool {
			n := 0
			for _, p := range []string{"inspath_empty", "inspath_leafsplit", "inspath_pathsplit", "inspath_childadd"} {
				if f[p] > 0 {
					n++
				}
			}
			return n >= 3 && f["delete_absent"] > 0
		},
	},
	{
		ID: "C08",
		Cfg: Config{Property: "C08", Assert: asserts("insert", "delete", "search", "all", "backward"),
			AuditOps: []string{"scan", "sweep"}, AuditEvery: 5, ExcludeKF: true, Census: true},
		Mix:       withMix(baseMix, func(m *Mix) { m.Scan = 2 }),
		Families:  []string{"collation"},
		CollProfs: []string{"text", "text", "text", "text", "deep", "fan", "textfan", "textfan"},
		Templates: []string{"longpath", "emptied"},
		Rule: "histories on collation trees for 12 collator configurations x string/[]byte (and []rune with the default collator) over text mixing case, accents, digits, scripts and long stems; the order oracle is CompareString of an independent collator instance; " +
			"non-trivial = two simultaneously stored keys have equal primary weights (differ only at secondary/tertiary level) and the history contains a successful delete; distinct by trace hash",
		NonTriv: func(f map[string]int) bool { return f["equal_primary_pair"] > 0 && f["delete_present"] > 0 },
	},
	{
		ID: "C09",
		Cfg: Config{Property: "C09", Assert: asserts("insert", "delete", "search", "all", "backward", "min", "max", "range", "topk", "bottomk", "size"),
			AuditOps: []string{"scan", "sweep", "extremes", "rangeaudit"}, AuditEvery: 6, Census: true},
		Mix:       withMix(baseMix, func(m *Mix) { m.Range = 6; m.Extremes = 1; m.TopBottom = 1; m.Size = 1 }),
		Families:  []string{"compound"},
		Templates: []string{"fanupdown", "emptied", "rangedecoy"},
		Rule: "a field schema (1..4 numeric fields, optional trailing NUL-free string) is drawn per case and the codec is built from the library's exported per-type encodings; histories use every Tree method except Prefix; the order oracle is a field-by-field tuple comparator; " +
			"non-trivial = schema with >= 2 fields, two stored tuples equal in the first field and different later, a successful delete and a Range; distinct by trace hash",
		NonTriv: func(f map[string]int) bool {
			return f["multi_field"] > 0 && f["same_first_field_pair"] > 0 && f["delete_present"] > 0 && f["range"] > 0
		},
	},
	{
		ID: "C11",
		Cfg: Config{Property: "C11", Assert: asserts("shape"), AuditOps: []string{"shape"}, AuditEvery: 1,
			ExcludeKF: true, Census: true},
		Mix:       baseMix,
		Families:  allFamilies,
		Variants:  lightVariants,
		Templates: []string{"longpath", "longpath", "fanupdown", "emptied"},
		Rule: "histories over all kinds with the structural audit (dump == independently built compressed radix tree of the descent keys, counters, class capacity, leaf count == Size) after every op; " +
			"non-trivial = some op changed the set of inner nodes (split, merge, grow or shrink, read off consecutive dumps); distinct by trace hash",
		NonTriv: func(f map[string]int) bool { return f["shape_changed"] > 0 },
	},
	{
		ID: "C12",
		Cfg: Config{Property: "C12", CallUndefined: true, Assert: asserts("insert", "delete", "search", "all", "backward", "min", "max", "topk", "bottomk", "range", "prefix", "size", "shape", "twin", "iter"),
			AuditOps: []string{"scan", "shape", "extremes", "topbottom", "rangeaudit", "prefixaudit"}, AuditEvery: 7, ExcludeKF: true, Census: true, Twin: true},
		Mix: withMix(baseMix, func(m *Mix) {
			m.BulkInsert, m.BulkDelete, m.DeleteAll = 8, 8, 3
			m.Scan, m.Extremes, m.TopBottom, m.Range, m.Prefix, m.Size = 1, 3, 2, 2, 2, 1
			m.Iter = 3
		}),
		Families:  allFamilies,
		Variants:  lightVariants,
		Profiles:  []string{"fan", "fan", "fan", "dense"},
		MinTrees:  2,
		MaxTrees:  6,
		Templates: []string{"fanupdown", "fanupdown", "emptied"},
		Rule: "2..6 trees of mixed kinds on one goroutine, ops interleaved by the generator with heavy fan-out churn; every tree is checked against its own model, and a tree emptied by deletes is shadowed by a freshly constructed tree that must give identical results and an identical structure from then on; " +
			"non-trivial = a node size class was lost by one tree and later gained by a different tree (pool traffic across trees, read off per-op class census); distinct by trace hash",
		NonTriv: func(f map[string]int) bool { return f["cross_tree_reuse"] > 0 },
	},
	{
		ID:  "C14",
		Cfg: Config{Property: "C14", Assert: asserts("iter"), AuditOps: []string{"iteraudit"}, AuditEvery: 11, ExcludeKF: true, Census: true},
		Mix: withMix(baseMix, func(m *Mix) {
			m.Iter = 14
			m.SearchAbsent, m.SearchPresent, m.DeleteAbsent = 0, 0, 1
		}),
		Families:  allFamilies,
		Variants:  lightVariants,
		Templates: []string{"fanupdown", "emptied"},
		Rule: "for each sequence method a sequence value is obtained once, abandoned after a drawn number of elements (the yield function is called directly, so a late callback is observed instead of crashing), then iterated completely 1..3 times and compared with a complete pass over a freshly obtained sequence; " +
			"non-trivial = the result has >= 3 elements, the stop position is strictly inside it and there are >= 2 re-iterations; distinct by trace hash",
		NonTriv: func(f map[string]int) bool { return f["iter_nontrivial"] > 0 },
	},
	{
		ID:  "C15",
		Cfg: Config{Property: "C15", CallUndefined: true, Assert: asserts(), ExcludeKF: true, Bracket: true, Census: true},
		Mix: withMix(baseMix, func(m *Mix) {
			m.SearchAbsent, m.SearchPresent, m.DeleteAbsent, m.Overwrite = 6, 4, 8, 5
			m.Range, m.Prefix, m.TopBottom, m.Extremes, m.Scan, m.Size, m.Iter = 3, 3, 2, 2, 2, 1, 3
		}),
		Families:  allFamilies,
		Variants:  lightVariants,
		Templates: []string{"longpath", "fanupdown"},
		Rule: "histories over all kinds where every read-only call, every Delete of an absent key and every Insert of a present key is bracketed by two raw dumps of the whole node graph (all fields incl. dead lanes, inline bytes, index tables, addresses, leaf bytes, values, root, size) that must be byte-identical (Insert(present): identical but one leaf value); " +
			"non-trivial = a bracketed call on a tree with at least 2 levels of inner nodes; distinct by trace hash",
		NonTriv: func(f map[string]int) bool { return f["bracketed_deep"] > 0 },
	},
	{
		ID: "C13",
		Cfg: Config{Property: "C13", CallUndefined: true, Assert: asserts("arena", "search", "all", "backward"),
			AuditOps: []string{"scan", "sweep"}, AuditEvery: 3, ExcludeKF: true, Arena: true},
		Mix: withMix(baseMix, func(m *Mix) {
			m.Range, m.Prefix = 4, 4
			m.BulkInsert, m.BulkDelete = 0, 0
		}),
		KindOf: func(t *rapid.T) Kind {
			switch drawInt(t, 0, 6, "c13fam") {
			case 0, 1, 2, 3:
				return MustKind("alpha:bytes")
			case 4:
				return MustKind("cmpraw:bytes") // compound tree, []byte keys, the library's pass-through codec
			}
			return MustKind("coll:" + pick(t, []string{"und", "de", "ic"}, "ccfg") + ":bytes")
		},
		Profiles:  []string{"dense", "dense", "deep", "fan"},
		CollProfs: []string{"text", "plaintext", "textfan"},
		Templates: []string{"longpath"},
		Rule: "[]byte-keyed byte-string and collation trees; every key argument of Insert/Search/Delete/Prefix/Range is a sub-slice buf[off:off+len:off+len+spare] of one caller-owned arena (spare 0..3 bytes of live caller data); after every call the whole arena must be unchanged, then it is overwritten with a different pattern and the tree must still contain exactly the model; " +
			"non-trivial = at least one call received spare capacity holding live data and a later audit compared the tree with the model after the arena was overwritten; distinct by trace hash",
		NonTriv: func(f map[string]int) bool { return f["arena_spare_calls"] > 0 && f["scan"] > 0 },
	},
	{
		ID: "C18",
		Cfg: Config{Property: "C18", CallUndefined: true, Assert: asserts("search", "all", "backward", "range", "gccheck"),
			AuditOps: []string{"scan", "sweep", "gccheck"}, AuditEvery: 9, ExcludeKF: true},
		Mix:       withMix(baseMix, func(m *Mix) { m.GC = 10; m.Range = 2; m.Scan = 1; m.Move = 8; m.Overwrite = 6 }),
		Families:  allFamilies,
		Variants:  ValueTypes,
		Templates: []string{"fanupdown", "longpath"},
		Rule: "histories over all kinds x 7 value types (int, heap string, pointer with finalizer, []byte, 200-byte struct with pointer, struct{}, any) with GC percent 1, forced collections at drawn points and a binary built with -d=checkptr; after collections every stored key/value must deep-equal its expected content and no finalizer of a stored pointer value may have run; " +
			"non-trivial = at least 3 forced collections happened while >= 8 keys were stored; distinct by trace hash",
		NonTriv: func(f map[string]int) bool { return f["gc_with_8"] >= 3 },
	},
}

func specByID(id string) *PropSpec {
	for _, s := range specs {
		if s.ID == id {
			return s
		}
	}
	return nil
}

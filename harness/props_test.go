package harness

import (
	"runtime/debug"
	"testing"
)

func TestC01(t *testing.T) { runSpec(t, "C01") }
func TestC02(t *testing.T) { runSpec(t, "C02") }
func TestC03(t *testing.T) { runSpec(t, "C03") }
func TestC04(t *testing.T) { runSpec(t, "C04") }
func TestC05(t *testing.T) { runSpec(t, "C05") }
func TestC06(t *testing.T) { runSpec(t, "C06") }
func TestC08(t *testing.T) { runSpec(t, "C08") }
func TestC09(t *testing.T) { runSpec(t, "C09") }
func TestC11(t *testing.T) { runSpec(t, "C11") }
func TestC12(t *testing.T) { runSpec(t, "C12") }
func TestC13(t *testing.T) { runSpec(t, "C13") }
func TestC14(t *testing.T) { runSpec(t, "C14") }
func TestC15(t *testing.T) { runSpec(t, "C15") }
func TestC18(t *testing.T) {
	old := debug.SetGCPercent(1) // collect as often as possible
	defer debug.SetGCPercent(old)
	runSpec(t, "C18")
}

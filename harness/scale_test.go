package harness

// Histories at scale (C01, C02, C05, C06): one tree is grown to tens of thousands
// of entries and emptied again, with the cheap per-operation expectations checked
// at every step (return values, Size) and the complete audits (every stored key
// found, full ordered scans both ways, extremes, Size against a count) at entry
// counts around 2^8 and 2^16 and at the peak. Generated histories keep trees
// small (that is where the shapes change); a counter, index or length field
// narrowed to 8 or 16 bits only shows at these counts.
//
// A scale history is a pure function of (kind, n, multiplier, offset), so the
// replay file records those four values instead of 2n operations.

import (
	"bytes"
	"fmt"
	"strconv"
	"testing"

	"pgregory.net/rapid"
)

var scaleKinds = []string{"u32", "i64", "u16", "f64", "alpha:string", "alpha:bytes", "coll:und:string", "cmp:u16,i32,str"}

// scaleKey returns the i-th key of the scale universe of a kind: consecutive
// values for the numeric kinds (so that the low bytes run through every value and
// the entry count passes 2^8 and 2^16 inside dense subtrees), digit strings in
// base 200 (no 0x00, no invalid UTF-8 for the collation kind: base 26 letters).
func scaleKey(k Kind, i int) []byte {
	switch kk := k.(type) {
	case *numKind:
		if kk.class == 'f' {
			return k.Canon(rawOf(uint64(0x3ff0000000000000) + uint64(i)<<uint(64-kk.width)))
		}
		if kk.class == 'i' {
			return k.Canon(rawOf(uint64(int64(i) - 40000)))
		}
		return k.Canon(rawOf(uint64(i)))
	case *compoundKind:
		var raw []byte
		for fi, f := range kk.fields {
			v := uint64(i >> (8 * uint(fi)) & 0xff)
			if fi == len(kk.fields)-1 {
				v = uint64(i)
			}
			raw = append(raw, f.Canon(rawOf(v))...)
		}
		if kk.hasStr {
			raw = append(raw, []byte(fmt.Sprintf("s%d", i%7))...)
		}
		return raw
	case *collKind:
		b := []byte("key-")
		for d := 3; d >= 0; d-- {
			x := i
			for j := 0; j < d; j++ {
				x /= 26
			}
			b = append(b, 'a'+byte(x%26))
		}
		return b
	}
	b := []byte("k")
	for d := 2; d >= 0; d-- {
		x := i
		for j := 0; j < d; j++ {
			x /= 200
		}
		b = append(b, 1+byte(x%200))
	}
	return b
}

// combKey returns the i-th key of a comb: at every depth one branch byte (the spine) leads on to
// the next level and the 254 other non-zero byte values are leaves, so the tree is as deep as the
// key is long AND every node on the spine is a full node256 - the shape with the most pending
// siblings per step of a traversal. Numeric kinds: 8 levels (2032 keys); byte strings: 14 levels.
func combLevels(k Kind) int {
	if nk, ok := k.(*numKind); ok {
		return nk.width / 8
	}
	if ck, ok := k.(*compoundKind); ok {
		return ck.fields[len(ck.fields)-1].width / 8
	}
	return 14
}

func combKey(k Kind, i int, spine byte) []byte {
	level, j := i/254, i%254
	var others []byte
	for b := 1; b < 256; b++ {
		if byte(b) != spine {
			others = append(others, byte(b))
		}
	}
	path := bytes.Repeat([]byte{spine}, level)
	path = append(path, others[j%len(others)])
	switch kk := k.(type) {
	case *numKind:
		w := kk.width / 8
		full := make([]byte, w)
		copy(full, path)
		var v uint64
		for _, b := range full {
			v = v<<8 | uint64(b)
		}
		if kk.class == 'i' {
			v ^= 1 << uint(kk.width-1) // so that the encoded (sign-flipped) bytes form the comb
		}
		if kk.class == 'f' {
			return nil
		}
		return k.Canon(rawOf(v))
	case *compoundKind:
		last := kk.fields[len(kk.fields)-1]
		var raw []byte
		for range kk.fields[:len(kk.fields)-1] {
			raw = append(raw, rawOf(7)...)
		}
		raw = append(raw, combKey(last, i, spine)...)
		if kk.hasStr {
			raw = append(raw, 's')
		}
		return raw
	case *collKind:
		return nil
	}
	return path
}

func gcd(a, b int) int {
	for b != 0 {
		a, b = b, a%b
	}
	return a
}

// scaleOps calls emit for every operation of the scale history.
func scaleOps(k Kind, n, mult, off int, spine int, iterAudits bool, emit func(Op) error) error {
	keyOf := func(i int) []byte { return scaleKey(k, i) }
	if spine >= 0 {
		keyOf = func(i int) []byte { return combKey(k, i, byte(spine)) }
	}
	for gcd(mult, n) != 1 {
		mult++
	}
	marks := map[int]bool{255: true, 256: true, 257: true, 65535: true, 65536: true, 65537: true, n: true, n / 2: true}
	audit := func() error {
		for _, a := range []string{"sizecheck", "sweep", "scan", "extremes", "topbottom", "iteraudit"} {
			if (a == "iteraudit") != iterAudits {
				continue // the iteration audits are C14's, the others belong to C01/C02/C05/C06
			}
			if err := emit(Op{Op: a, Note: "scale"}); err != nil {
				return err
			}
		}
		if !iterAudits {
			return nil
		}
		// sequences abandoned right at the start and right before the end, nested and with calls inside
		for _, m := range []string{"all", "backward", "topk", "bottomk"} {
			for _, o := range []Op{{Stop: 0, Re: 1}, {Stop: 1, Re: 1, In: 2}, {Stop: -1, Re: 1, Btw: 2}} {
				o.Op, o.M, o.N, o.Note = "iter", m, 1<<40, "scale"
				if err := emit(o); err != nil {
					return err
				}
			}
		}
		return nil
	}
	for i := 0; i < n; i++ {
		idx := (i*mult + off) % n
		if err := emit(Op{Op: "insert", K: keyOf(idx), V: idx + 1}); err != nil {
			return err
		}
		if err := emit(Op{Op: "size"}); err != nil {
			return err
		}
		if i%5 == 0 {
			if err := emit(Op{Op: "search", K: keyOf((idx*7 + 3) % n)}); err != nil {
				return err
			}
		}
		if i%1001 == 0 {
			if err := emit(Op{Op: "insert", K: keyOf(idx), V: idx + 2, Note: "overwrite"}); err != nil {
				return err
			}
		}
		if marks[i+1] {
			if err := audit(); err != nil {
				return err
			}
		}
	}
	mult2 := mult + 2
	for gcd(mult2, n) != 1 {
		mult2++
	}
	for i := 0; i < n; i++ {
		idx := (i*mult2 + off/2) % n
		if err := emit(Op{Op: "delete", K: keyOf(idx)}); err != nil {
			return err
		}
		if err := emit(Op{Op: "size"}); err != nil {
			return err
		}
		if i%1001 == 0 {
			if err := emit(Op{Op: "delete", K: keyOf(idx), Note: "absent"}); err != nil {
				return err
			}
		}
		if marks[n-i-1] || n-i-1 == 0 {
			if err := audit(); err != nil {
				return err
			}
		}
	}
	return nil
}

func scaleParams(tr *Trace) (n, mult, off int, ok bool) {
	if tr.Params == nil || tr.Params["scale_n"] == "" {
		return 0, 0, 0, false
	}
	n, _ = strconv.Atoi(tr.Params["scale_n"])
	mult, _ = strconv.Atoi(tr.Params["scale_mult"])
	off, _ = strconv.Atoi(tr.Params["scale_off"])
	return n, mult, off, n > 0
}

// replayScale runs the scale history a trace describes.
func replayScale(tr *Trace) error {
	n, mult, off, _ := scaleParams(tr)
	spine := -1
	if sp := tr.Params["scale_spine"]; sp != "" {
		spine, _ = strconv.Atoi(sp)
	}
	spec := specByID(tr.Property)
	if spec == nil {
		return fmt.Errorf("no history spec for property %q", tr.Property)
	}
	kind, err := ParseKind(tr.Kinds[0])
	if err != nil {
		return err
	}
	cfg := spec.Cfg
	cfg.AuditEvery, cfg.AuditOps = 0, nil
	cfg.Bracket, cfg.Twin, cfg.Census, cfg.NoClassify = false, false, false, true
	cfg.ExcludeKF = false // scale keys are free of the known findings by construction (fixed length, no 0x00, distinct primary weights)
	eng := NewEngine(&cfg, []Kind{kind})
	nops := 0
	err = scaleOps(kind, n, mult, off, spine, tr.Property == "C14", func(op Op) error {
		nops++
		return eng.Apply(op)
	})
	if err == ErrAbort {
		return nil
	}
	if v, ok := err.(*Violation); ok {
		v.Msg = fmt.Sprintf("scale history (kind %s, n=%d, mult=%d, off=%d, comb spine=%d) at op #%d: %s", tr.Kinds[0], n, mult, off, spine, nops, v.Msg)
	}
	return err
}

func runScale(t *testing.T, id string) {
	stats.Property = id
	stats.Rule = "scale histories: one tree (numeric, byte-string, collation or compound kind) is grown to 66 000-70 001 entries in a drawn permutation - or to a comb: a spine on which every node is a full node256 - and emptied again in another permutation; return values and Size() are checked at every step, the complete audits (every stored key found, full ordered scans both ways, extremes, TopK/BottomK, Size against a count; for C14 the iteration audits) at entry counts around 2^8 and 2^16, at half size and at the peak; non-trivial = every case (each runs all 2n operations); distinct by (kind, n, permutation parameters)"
	rapid.Check(t, func(rt *rapid.T) {
		kn := pick(rt, scaleKinds, "scalekind")
		n := pick(rt, []int{300, 66000, 66000, 70001}, "scalen")
		if kn == "u16" {
			n = min(n, 65536)
		}
		shape := "dense"
		params := map[string]string{}
		combOdds := 2
		if id == "C14" {
			combOdds = 1 // the shape with the most pending siblings matters most to the traversals
		}
		if kind := MustKind(kn); drawInt(rt, 0, combOdds, "comb") == 0 && combKey(kind, 0, 1) != nil {
			// comb: deep and wide at once
			shape = "comb"
			n = combLevels(kind) * 254
			params["scale_spine"] = strconv.Itoa(pick(rt, []int{0x01, 0xff, 0x80, 0x01, 0xff}, "spine"))
		}
		params["scale_n"], params["scale_mult"], params["scale_off"] = strconv.Itoa(n), strconv.Itoa(drawInt(rt, 1, 9973, "mult")), strconv.Itoa(drawInt(rt, 0, n-1, "off"))
		tr := &Trace{Property: id, Kinds: []string{kn}, Params: params}
		err := replayScale(tr)
		stats.AddBulk(1, 1, "scale_histories")
		stats.mu.Lock()
		stats.Labels["scale_"+kn]++
		stats.Labels["scale_entries_"+strconv.Itoa(n)]++
		stats.Labels["scale_shape_"+shape]++
		stats.mu.Unlock()
		if err != nil {
			tr.Failure = err.Error()
			failures.addOther(tr)
			rt.Fatalf("%s: %v", id, err)
		}
	})
}

func TestScaleC01(t *testing.T) { runScale(t, "C01") }
func TestScaleC02(t *testing.T) { runScale(t, "C02") }
func TestScaleC05(t *testing.T) { runScale(t, "C05") }
func TestScaleC06(t *testing.T) { runScale(t, "C06") }
func TestScaleC14(t *testing.T) { runScale(t, "C14") }

package harness

// Structural oracles that work on the hook's dump: the shape checker (C11), the
// raw-state serialisation (C15) and the node-class census (classification).

import (
	"bytes"
	"fmt"
	"reflect"
	"sort"
	"strings"
	"unsafe"

	art "github.com/Clement-Jean/go-art"
)

func VerifDumpOf(s Subject) *art.VerifTree {
	if s == nil {
		return nil
	}
	return art.VerifDump(s.Tree())
}

func countLeaves(n *art.VerifNode) int {
	if n == nil {
		return 0
	}
	if n.Kind == 4 {
		return 1
	}
	c := 0
	for _, ch := range n.Children {
		c += countLeaves(ch)
	}
	return c
}

func leavesOf(n *art.VerifNode, out *[]*art.VerifNode) {
	if n == nil {
		return
	}
	if n.Kind == 4 {
		*out = append(*out, n)
		return
	}
	for _, ch := range n.Children {
		leavesOf(ch, out)
	}
}

var classCap = [4]int{4, 16, 48, 256}
var className = [5]string{"node4", "node16", "node48", "node256", "leaf"}

// xnode is a node of the independently built compressed radix tree.
type xnode struct {
	key      []byte // leaf
	prefix   []byte
	bytes    []byte
	children []*xnode
}

// buildRadix builds the compressed radix tree of sorted, distinct keys.
func buildRadix(keys [][]byte, depth int) (*xnode, error) {
	if len(keys) == 1 {
		return &xnode{key: keys[0]}, nil
	}
	first, last := keys[0], keys[len(keys)-1]
	l := 0
	for depth+l < len(first) && depth+l < len(last) && first[depth+l] == last[depth+l] {
		l++
	}
	n := &xnode{prefix: first[depth : depth+l]}
	i := 0
	for i < len(keys) {
		if depth+l >= len(keys[i]) {
			return nil, fmt.Errorf("descent key %x is a prefix of descent key %x (keys are not prefix-free)", keys[i], keys[len(keys)-1])
		}
		b := keys[i][depth+l]
		j := i
		for j < len(keys) && depth+l < len(keys[j]) && keys[j][depth+l] == b {
			j++
		}
		c, err := buildRadix(keys[i:j], depth+l+1)
		if err != nil {
			return nil, err
		}
		n.bytes = append(n.bytes, b)
		n.children = append(n.children, c)
		i = j
	}
	return n, nil
}

func compareShape(path string, got *art.VerifNode, want *xnode) error {
	if got == nil {
		return fmt.Errorf("at %s: nil child", path)
	}
	if want.key != nil {
		if got.Kind != 4 {
			return fmt.Errorf("at %s: expected the leaf %x, found a %s", path, want.key, className[got.Kind])
		}
		if !bytes.Equal(got.TKey, want.key) {
			return fmt.Errorf("at %s: leaf holds descent key %x, expected %x", path, got.TKey, want.key)
		}
		return nil
	}
	if got.Kind == 4 {
		return fmt.Errorf("at %s: expected a branch point with %d children, found leaf %x", path, len(want.children), got.TKey)
	}
	if int(got.PrefixLen) != len(want.prefix) {
		return fmt.Errorf("at %s: %s records a compressed path of %d bytes, the keys below share %d (%x)", path, className[got.Kind], got.PrefixLen, len(want.prefix), want.prefix)
	}
	in := min(len(want.prefix), len(got.Prefix))
	if !bytes.Equal(got.Prefix[:in], want.prefix[:in]) {
		return fmt.Errorf("at %s: inline path bytes %x differ from the shared bytes %x", path, got.Prefix[:in], want.prefix[:in])
	}
	if !bytes.Equal(got.Bytes, want.bytes) {
		return fmt.Errorf("at %s: %s enumerates branch bytes %x, expected %x", path, className[got.Kind], got.Bytes, want.bytes)
	}
	real := len(got.Children)
	if real < 2 {
		return fmt.Errorf("at %s: branch point with %d children", path, real)
	}
	if real > classCap[got.Kind] {
		return fmt.Errorf("at %s: %d children do not fit a %s", path, real, className[got.Kind])
	}
	if got.Kind == 3 {
		if got.ChildrenLen != uint8(real) { // the counter is a uint8: a full node256 records 0
			return fmt.Errorf("at %s: node256 records fan-out %d (mod 256), real fan-out %d", path, got.ChildrenLen, real)
		}
	} else if int(got.ChildrenLen) != real {
		return fmt.Errorf("at %s: %s records fan-out %d, real fan-out %d", path, className[got.Kind], got.ChildrenLen, real)
	}
	for i := range want.children {
		if err := compareShape(fmt.Sprintf("%s/%02x", path, want.bytes[i]), got.Children[i], want.children[i]); err != nil {
			return err
		}
	}
	return nil
}

// descentKeyOf computes, independently where that is trivial, the descent key a
// stored raw key must have. ok=false when the harness has no independent notion.
func descentKeyOf(k Kind, raw []byte) ([]byte, bool) {
	switch kk := k.(type) {
	case *alphaKind:
		return append(clone(raw), 0), true
	case *numKind:
		b := bitsOf(kk.Canon(raw))
		if kk.class == 'f' {
			return encodeField(kk, b), true // library codec (validated separately by C07)
		}
		if kk.class == 'i' {
			b ^= 1 << uint(kk.width-1)
		}
		full := rawOf(b)
		return full[8-kk.width/8:], true
	case *compoundKind:
		_, enc := tupleCodec{kk}.Transform(kk.toTuple(raw))
		return enc, true
	case *rawCmpKind:
		return clone(raw), true
	}
	return nil, false
}

// checkShape verifies that the dump is the compressed radix tree of the stored keys.
func checkShape(k Kind, d *art.VerifTree, m *Model) error {
	var leaves []*art.VerifNode
	leavesOf(d.Root, &leaves)
	if len(leaves) != d.Size {
		return fmt.Errorf("%d leaves are reachable but Size() is %d", len(leaves), d.Size)
	}
	if len(leaves) != m.Len() {
		return fmt.Errorf("%d leaves are reachable but %d keys are stored", len(leaves), m.Len())
	}
	if len(leaves) == 0 {
		if d.Root != nil {
			return fmt.Errorf("empty tree with a non-nil root")
		}
		return nil
	}
	keys := make([][]byte, 0, len(leaves))
	byKey := map[string]*art.VerifNode{}
	for _, l := range leaves {
		if _, dup := byKey[string(l.TKey)]; dup {
			return fmt.Errorf("two leaves hold the descent key %x", l.TKey)
		}
		byKey[string(l.TKey)] = l
		keys = append(keys, l.TKey)
	}
	sort.Slice(keys, func(i, j int) bool { return bytes.Compare(keys[i], keys[j]) < 0 })

	// every stored key has a leaf, with the right original form
	for _, en := range m.Sorted() {
		switch k.(type) {
		case *collKind:
			found := false
			for _, l := range leaves {
				if bytes.Equal(l.Key, en.Raw) {
					found = true
					break
				}
			}
			if !found {
				return fmt.Errorf("stored key %s has no leaf holding its original bytes", k.Show(en.Raw))
			}
		default:
			dk, ok := descentKeyOf(k, en.Raw)
			if !ok {
				continue
			}
			l := byKey[string(dk)]
			if l == nil {
				return fmt.Errorf("stored key %s (descent key %x) has no leaf", k.Show(en.Raw), dk)
			}
			if !bytes.Equal(l.Key, dk) {
				return fmt.Errorf("leaf of %s keeps key bytes %x, expected %x", k.Show(en.Raw), l.Key, dk)
			}
		}
	}

	want, err := buildRadix(keys, 0)
	if err != nil {
		return err
	}
	return compareShape("root", d.Root, want)
}

func (e *Engine) doShape(s *slot, op Op) error {
	d := VerifDumpOf(s.sub)
	if d == nil {
		return nil
	}
	if err := checkShape(s.kind, d, s.model); err != nil {
		return violf("index not well-formed: %v", err)
	}
	if s.twin != nil && e.asserted("twin") {
		td := VerifDumpOf(s.twin)
		// size classes are not compared: the property is about behaviour, and apart from the
		// classes the shape is a function of the key set (C11)
		if a, b := canonicalDump(d, false), canonicalDump(td, false); a != b {
			return violf("emptied-then-reused tree and fresh tree differ structurally (size classes aside):\n%s\nvs fresh\n%s", a, b)
		}
	}
	e.fact("shape")
	return nil
}

// canonicalDump renders a dump without addresses (withClass keeps size classes).
func canonicalDump(d *art.VerifTree, withClass bool) string {
	var sb strings.Builder
	fmt.Fprintf(&sb, "size=%d\n", d.Size)
	var walk func(n *art.VerifNode, ind string)
	walk = func(n *art.VerifNode, ind string) {
		if n == nil {
			sb.WriteString(ind + "nil\n")
			return
		}
		if n.Kind == 4 {
			fmt.Fprintf(&sb, "%sleaf key=%x tkey=%x val=%s\n", ind, n.Key, n.TKey, showValue(n.Value))
			return
		}
		cls := "inner"
		if withClass {
			cls = className[n.Kind]
		}
		fmt.Fprintf(&sb, "%s%s n=%d plen=%d p=%x\n", ind, cls, len(n.Children), n.PrefixLen, n.Prefix[:min(10, int(n.PrefixLen))])
		for i, c := range n.Children {
			fmt.Fprintf(&sb, "%s %02x:\n", ind, n.Bytes[i])
			walk(c, ind+"  ")
		}
	}
	walk(d.Root, "")
	return sb.String()
}

// ---------------------------------------------------------------------------
// raw state (C15)

type rawRec struct {
	leaf  bool
	head  string // everything but a leaf's value
	value string
}

type rawState struct {
	recs   []rawRec
	height int
}

func takeRaw(s Subject) *rawState {
	d := VerifDumpOf(s)
	if d == nil {
		return nil
	}
	rs := &rawState{}
	rs.recs = append(rs.recs, rawRec{head: fmt.Sprintf("tree size=%d roottag=%d header=%x", d.Size, d.RootTag, treeHeaderBytes(s))})
	var walk func(n *art.VerifNode, depth int)
	walk = func(n *art.VerifNode, depth int) {
		if n == nil {
			return
		}
		if n.Kind == 4 {
			rs.recs = append(rs.recs, rawRec{leaf: true,
				head:  fmt.Sprintf("leaf@%x key@%x=%x tkey@%x=%x", n.Addr, n.KeyPtr, n.Key, n.TKeyPtr, n.TKey),
				value: showValue(n.Value)})
			return
		}
		rs.height = max(rs.height, depth+1)
		rs.recs = append(rs.recs, rawRec{head: fmt.Sprintf("%s@%x n=%d plen=%d prefix=%x keys=%x slots=%x tags=%v",
			className[n.Kind], n.Addr, n.ChildrenLen, n.PrefixLen, n.Prefix[:], n.RawKeys, n.RawSlots, n.RawTags)})
		for _, c := range n.Children {
			walk(c, depth+1)
		}
	}
	walk(d.Root, 0)
	return rs
}

// treeHeaderBytes returns the raw memory of the tree object itself (root
// reference, codec, size and whatever else the struct holds), so that a write to
// any of its fields shows up. Collation trees are skipped: their struct embeds
// the codec scratch (last key, buffer), which every query legitimately rewrites.
func treeHeaderBytes(s Subject) []byte {
	t := s.Tree()
	v := reflect.ValueOf(t)
	if v.Kind() != reflect.Pointer || v.IsNil() || v.Elem().Kind() != reflect.Struct {
		return nil
	}
	if strings.Contains(v.Type().String(), "collation") {
		return nil
	}
	n := v.Elem().Type().Size()
	return clone(unsafe.Slice((*byte)(v.UnsafePointer()), n))
}

// diff describes the first difference ("" if none). With allowOneValue a
// single leaf may differ in its value only.
func (a *rawState) diff(b *rawState, allowOneValue bool) string {
	if a == nil || b == nil {
		return ""
	}
	if len(a.recs) != len(b.recs) {
		return fmt.Sprintf("%d records before, %d after", len(a.recs), len(b.recs))
	}
	valueDiffs := 0
	for i := range a.recs {
		x, y := a.recs[i], b.recs[i]
		if x.head != y.head {
			return fmt.Sprintf("before: %s | after: %s", x.head, y.head)
		}
		if x.value != y.value {
			valueDiffs++
			if !allowOneValue || valueDiffs > 1 {
				return fmt.Sprintf("value of %s changed from %s to %s", x.head, x.value, y.value)
			}
		}
	}
	return ""
}

func (a *rawState) depthOf(s *slot, op Op) int {
	if a == nil {
		return 0
	}
	return a.height
}

// ---------------------------------------------------------------------------
// census

func (e *Engine) takeCensus(s *slot, op Op) {
	d := VerifDumpOf(s.sub)
	if d == nil {
		return
	}
	var c [4]int
	inner := map[uintptr]uint32{}
	var walk func(n *art.VerifNode)
	walk = func(n *art.VerifNode) {
		if n == nil || n.Kind == 4 {
			return
		}
		c[n.Kind]++
		inner[n.Addr] = n.PrefixLen
		if len(n.Children) == 256 {
			e.Facts["full_node256"] = 1
			if n == d.Root {
				e.Facts["full_node256_root"] = 1
			}
		}
		if n.PrefixLen > 10 {
			e.Facts["has_long_path"] = 1
		}
		for _, ch := range n.Children {
			walk(ch)
		}
	}
	walk(d.Root)
	changed := false
	for i := 0; i < 4; i++ {
		if c[i] > s.census[i] {
			e.fact("gained_" + className[i])
			e.classEvent(s, i, true)
			changed = true
		}
		if c[i] < s.census[i] {
			e.fact("lost_" + className[i])
			e.classEvent(s, i, false)
			changed = true
		}
		if c[i] > 0 {
			e.Facts["has_"+className[i]] = 1
		}
	}
	if changed {
		e.fact("shape_changed")
	}
	if op.Op == "insert" && !s.wasPresent && d.Size > s.prevSize {
		// which insertion path was taken (read off the two consecutive dumps)
		switch {
		case s.prevSize == 0:
			e.fact("inspath_empty")
		case len(inner) > len(s.prevInner):
			shortened := false
			for a, l := range s.prevInner {
				if nl, ok := inner[a]; ok && nl < l {
					shortened = true
					if l > 10 {
						e.fact("inspath_pathsplit_long")
					}
				}
			}
			if shortened {
				e.fact("inspath_pathsplit")
			} else {
				e.fact("inspath_leafsplit")
			}
		default:
			e.fact("inspath_childadd")
		}
	}
	if op.Op == "delete" && s.wasPresent && len(inner) < len(s.prevInner) {
		e.fact("merge")
		for a, l := range inner {
			if pl, ok := s.prevInner[a]; ok && l > pl && l > 10 && pl <= 10 {
				e.fact("merge_crossing_inline_limit")
			}
		}
	}
	s.prevInner, s.prevSize = inner, d.Size
	s.census = c
}

// classEvent records pool traffic between different trees (C12): a class lost
// by one tree and later gained by another.
func (e *Engine) classEvent(s *slot, class int, gained bool) {
	idx := -1
	for i, x := range e.slots {
		if x == s {
			idx = i
		}
	}
	key := fmt.Sprintf("_lastloser_%d", class)
	if !gained {
		e.Facts[key] = idx + 1
		return
	}
	if l := e.Facts[key]; l != 0 && l != idx+1 {
		e.fact("cross_tree_reuse_" + className[class])
		e.fact("cross_tree_reuse")
	}
}

// showValue renders a stored value by content (pointer values by what they point to), so that two
// trees holding equal values render alike.
func showValue(v any) string {
	switch x := v.(type) {
	case *payload:
		return fmt.Sprintf("ptr#%d", payloadID(x))
	case bigVal:
		return fmt.Sprintf("big#%d/%d/%x", payloadID(x.p), stringID(x.s), x.pad[:4])
	case []byte:
		return fmt.Sprintf("bytes#%d", bytesID(x))
	}
	return fmt.Sprintf("%v", v)
}

package harness

import (
	"encoding/json"
	"os"
	"sort"
	"strings"
	"sync"
	"time"
)

// Stats accumulates what a run actually generated.
type Stats struct {
	mu           sync.Mutex
	Property     string
	Rule         string
	Evaluations  int
	Aborted      int
	NonTrivial   int
	Distinct     map[uint64]bool // hashes of non-trivial cases
	Labels       map[string]int  // number of cases in which each fact occurred
	FactTotals   map[string]int  // summed fact counters
	Kinds        map[string]int
	Samples      []any
	Extra        map[string]any
	Exhaustive   map[string]bool
	Start        time.Time
	bulkDistinct int
}

var stats = &Stats{Distinct: map[uint64]bool{}, Labels: map[string]int{}, FactTotals: map[string]int{}, Kinds: map[string]int{},
	Extra: map[string]any{}, Exhaustive: map[string]bool{}, Start: time.Now()}

func (s *Stats) aborted() {
	s.mu.Lock()
	s.Evaluations++
	s.Aborted++
	s.mu.Unlock()
}

func (s *Stats) record(h *History) {
	s.mu.Lock()
	defer s.mu.Unlock()
	s.Evaluations++
	f := h.eng.Facts
	for name, n := range f {
		if strings.HasPrefix(name, "_") || n == 0 {
			continue
		}
		s.Labels[name]++
		s.FactTotals[name] += n
	}
	for _, k := range h.trace.Kinds {
		fam := k
		if i := strings.IndexByte(k, ':'); i > 0 && !strings.HasPrefix(k, "alpha") {
			fam = k[:i]
			if fam == "coll" {
				fam = k[:strings.LastIndexByte(k, ':')]
			}
		}
		s.Kinds[fam]++
	}
	if h.cfg.ValType != "" {
		s.Labels["valtype_"+h.cfg.ValType]++
	}
	for _, u := range h.unis {
		s.Labels["profile_"+u.profile]++
	}
	if h.spec.NonTriv != nil && h.spec.NonTriv(f) {
		s.NonTrivial++
		hh := h.trace.Hash()
		if !s.Distinct[hh] {
			s.Distinct[hh] = true
			if len(s.Samples) < 4 {
				s.Samples = append(s.Samples, h.trace.Brief(h.eng.Kinds(), 40))
			}
		}
	}
}

// AddCase records one non-history case (codec pair, node state, ...).
func (s *Stats) AddCase(nontrivial bool, hash uint64, labels []string, sample func() any) {
	s.mu.Lock()
	defer s.mu.Unlock()
	s.Evaluations++
	for _, l := range labels {
		s.Labels[l]++
	}
	if nontrivial {
		s.NonTrivial++
		if !s.Distinct[hash] {
			s.Distinct[hash] = true
			if len(s.Samples) < 4 && sample != nil {
				s.Samples = append(s.Samples, sample())
			}
		}
	}
}

// AddBulk records n evaluations of which d were distinct non-trivial (for
// enumerations that count in bulk rather than keeping every hash).
func (s *Stats) AddBulk(n, d int, label string) {
	s.mu.Lock()
	s.Evaluations += n
	s.NonTrivial += d
	s.bulkDistinct += d
	if label != "" {
		s.Labels[label] += n
	}
	s.mu.Unlock()
}

type statsOut struct {
	Property           string          `json:"property"`
	Rule               string          `json:"rule"`
	Evaluations        int             `json:"evaluations"`
	Aborted            int             `json:"aborted_foreign_panic"`
	NonTrivial         int             `json:"nontrivial"`
	DistinctNonTrivial int             `json:"distinct_nontrivial"`
	DistinctHashes     []uint64        `json:"distinct_hashes,omitempty"`
	Labels             map[string]int  `json:"classes"`
	FactTotals         map[string]int  `json:"fact_totals,omitempty"`
	Kinds              map[string]int  `json:"kinds"`
	Samples            []any           `json:"samples"`
	Extra              map[string]any  `json:"extra,omitempty"`
	Exhaustive         map[string]bool `json:"exhaustive,omitempty"`
	WallS              float64         `json:"wall_s"`
	Failures           []failureOut    `json:"failures"`
	RapidOK            int             `json:"rapid_ok"`
}

type failureOut struct {
	Replay string `json:"replay"`
	Msg    string `json:"msg"`
	NOps   int    `json:"n_ops"`
}

func (s *Stats) write(path string, fails []failureOut) error {
	s.mu.Lock()
	defer s.mu.Unlock()
	out := statsOut{Property: s.Property, Rule: s.Rule, Evaluations: s.Evaluations, Aborted: s.Aborted, NonTrivial: s.NonTrivial,
		DistinctNonTrivial: len(s.Distinct) + s.bulkDistinct, Labels: s.Labels, FactTotals: s.FactTotals, Kinds: s.Kinds,
		Samples: s.Samples, Extra: s.Extra, Exhaustive: s.Exhaustive, WallS: time.Since(s.Start).Seconds(), Failures: fails}
	if len(s.Distinct) <= 200000 {
		for h := range s.Distinct {
			out.DistinctHashes = append(out.DistinctHashes, h)
		}
		sort.Slice(out.DistinctHashes, func(i, j int) bool { return out.DistinctHashes[i] < out.DistinctHashes[j] })
	}
	if out.Samples == nil {
		out.Samples = []any{}
	}
	if out.Failures == nil {
		out.Failures = []failureOut{}
	}
	b, err := json.MarshalIndent(out, "", " ")
	if err != nil {
		return err
	}
	return os.WriteFile(path, b, 0o644)
}

// ---------------------------------------------------------------------------
// failing traces seen during a run (every failing execution, including those
// of rapid's shrinking phase); the shortest one is kept.

type failureSet struct {
	mu     sync.Mutex
	best   *Trace
	count  int
	others []*Trace // non-history failures recorded directly
}

var failures = &failureSet{}

func (f *failureSet) add(t *Trace) {
	f.mu.Lock()
	defer f.mu.Unlock()
	f.count++
	if f.best == nil || len(t.Ops) < len(f.best.Ops) {
		f.best = t
	}
}

func (f *failureSet) addOther(t *Trace) {
	f.mu.Lock()
	defer f.mu.Unlock()
	f.count++
	if len(f.others) < 5 {
		f.others = append(f.others, t)
	}
}

package harness

import (
	"crypto/sha256"
	"encoding/binary"
	"encoding/hex"
	"encoding/json"
	"fmt"
	"os"
	"strings"
)

// Hex is a byte string that marshals as a hex string.
type Hex []byte

func (h Hex) MarshalJSON() ([]byte, error) { return json.Marshal(hex.EncodeToString(h)) }
func (h *Hex) UnmarshalJSON(b []byte) error {
	var s string
	if err := json.Unmarshal(b, &s); err != nil {
		return err
	}
	d, err := hex.DecodeString(s)
	if err != nil {
		return err
	}
	*h = d
	return nil
}

// Op is one fully concrete operation of a history.
type Op struct {
	T     int    `json:"t,omitempty"` // tree index
	Op    string `json:"op"`
	K     Hex    `json:"k,omitempty"`
	K2    Hex    `json:"k2,omitempty"`
	V     int    `json:"v,omitempty"`
	N     uint64 `json:"n,omitempty"`
	M     string `json:"m,omitempty"`    // iter: which sequence method
	Stop  int    `json:"stop,omitempty"` // iter: accept this many elements, then return false
	Re    int    `json:"re,omitempty"`   // iter: number of complete re-iterations
	Btw   int    `json:"btw,omitempty"`  // iter: 1 = read-only queries (tree unchanged) are run between the passes
	In    int    `json:"in,omitempty"`   // iter: nested pass over the same sequence value started from inside a pass (-1 complete, n>0 stopped after n elements)
	Pull  int    `json:"pull,omitempty"` // iter: the pass is pulled (iter.Pull2) in alternation with a full scan of tree T2; the bits are the schedule
	T2    int    `json:"t2,omitempty"`
	Off   int    `json:"off,omitempty"` // arena: offset of the key argument inside the caller's buffer
	Spare int    `json:"spare,omitempty"`
	Fill  int    `json:"fill,omitempty"` // arena: what the caller's buffer holds around the key (0 pattern, 1 zeros, 2 zero right after the key, 3 0xff)
	G     int    `json:"g,omitempty"`    // goroutine (C16)
	Note  string `json:"note,omitempty"`
}

// Trace is a replayable history: which trees exist and what was done to them.
type Trace struct {
	Property string            `json:"property"`
	Kinds    []string          `json:"kinds"`
	Variant  string            `json:"variant,omitempty"`
	Params   map[string]string `json:"params,omitempty"`
	Ops      []Op              `json:"ops"`
	Failure  string            `json:"failure,omitempty"`
	Seed     uint64            `json:"seed,omitempty"`
}

func (t *Trace) Hash() uint64 {
	h := sha256.New()
	fmt.Fprintf(h, "%s|%s|%s|", t.Property, strings.Join(t.Kinds, ";"), t.Variant)
	for _, op := range t.Ops {
		fmt.Fprintf(h, "%d,%s,%x,%x,%d,%d,%s,%d,%d,%d,%d,%d;", op.T, op.Op, []byte(op.K), []byte(op.K2), op.V, op.N, op.M, op.Stop, op.Re+8*op.Btw+64*(op.In+2)+1024*op.Pull+(op.T2<<28), op.Off, op.Spare+16*op.Fill, op.G)
	}
	return binary.BigEndian.Uint64(h.Sum(nil)[:8])
}

func (t *Trace) Save(path string) error {
	b, err := json.MarshalIndent(t, "", " ")
	if err != nil {
		return err
	}
	return os.WriteFile(path, append(b, '\n'), 0o644)
}

func LoadTrace(path string) (*Trace, error) {
	b, err := os.ReadFile(path)
	if err != nil {
		return nil, err
	}
	var t Trace
	if err := json.Unmarshal(b, &t); err != nil {
		return nil, err
	}
	return &t, nil
}

// Brief renders a trace compactly for evidence samples.
func (t *Trace) Brief(kinds []Kind, maxOps int) map[string]any {
	var ops []string
	for i, op := range t.Ops {
		if i >= maxOps {
			ops = append(ops, fmt.Sprintf("... +%d ops", len(t.Ops)-maxOps))
			break
		}
		ops = append(ops, showOp(kinds, op))
	}
	out := map[string]any{"kinds": t.Kinds, "n_ops": len(t.Ops), "ops": ops}
	if t.Variant != "" {
		out["variant"] = t.Variant
	}
	return out
}

func showOp(kinds []Kind, op Op) string {
	var k Kind
	if op.T < len(kinds) {
		k = kinds[op.T]
	}
	show := func(b []byte) string {
		if k == nil {
			return hex.EncodeToString(b)
		}
		return k.Show(b)
	}
	var sb strings.Builder
	if len(kinds) > 1 {
		fmt.Fprintf(&sb, "t%d.", op.T)
	}
	if op.G != 0 {
		fmt.Fprintf(&sb, "g%d.", op.G)
	}
	switch op.Op {
	case "insert":
		fmt.Fprintf(&sb, "insert(%s,%d)", show(op.K), op.V)
	case "delete", "search", "prefix":
		fmt.Fprintf(&sb, "%s(%s)", op.Op, show(op.K))
	case "range":
		fmt.Fprintf(&sb, "range(%s,%s)", show(op.K), show(op.K2))
	case "move":
		fmt.Fprintf(&sb, "move(%s -> %s)", show(op.K), show(op.K2))
	case "topk", "bottomk":
		fmt.Fprintf(&sb, "%s(%d)", op.Op, op.N)
	case "iter":
		switch op.M {
		case "prefix":
			fmt.Fprintf(&sb, "iter[prefix(%s)", show(op.K))
		case "range":
			fmt.Fprintf(&sb, "iter[range(%s,%s)", show(op.K), show(op.K2))
		case "topk", "bottomk":
			fmt.Fprintf(&sb, "iter[%s(%d)", op.M, op.N)
		default:
			fmt.Fprintf(&sb, "iter[%s()", op.M)
		}
		fmt.Fprintf(&sb, " stop=%d re=%d", op.Stop, op.Re)
		if op.Btw&1 != 0 {
			sb.WriteString(" queries-between")
		}
		if op.Btw&2 != 0 {
			sb.WriteString(" queries-inside")
		}
		if op.In != 0 {
			fmt.Fprintf(&sb, " nested=%d", op.In)
		}
		if op.Pull != 0 {
			fmt.Fprintf(&sb, " pulled-with-t%d-schedule=%#x", op.T2, op.Pull)
		}
		sb.WriteString("]")
	default:
		sb.WriteString(op.Op + "()")
	}
	if op.Spare != 0 || op.Off != 0 {
		fmt.Fprintf(&sb, "@off=%d,spare=%d", op.Off, op.Spare)
	}
	if op.Note != "" {
		sb.WriteString(" #" + op.Note)
	}
	return sb.String()
}

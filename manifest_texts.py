"""Human-written texts of MANIFEST.json (levels, notes, techniques)."""

NOTES = ("Technique family: property-based testing and fuzzing. Every check states its property as an executable oracle over generated "
         "inputs / operation histories (pgregory.net/rapid v1.3.0, exhaustive enumeration of small finite domains, native go fuzzing in the "
         "thorough tier) and shrinks failures to a JSON trace replayed without the generator. See DESIGN.md.")

TEXTS = {
    "C01": {
        "technique": "model-based stateful property testing (rapid state machine vs. map model) with derived absent-key sweeps",
        "design_ref": "DESIGN.md §4 C01",
        "level_text": "Generated histories over all six tree kinds and every key type are applied to the real tree and to a map model; every Insert/Delete/Search outcome and periodic full sweeps (all stored keys found, derived absent neighbours not found) are compared. This is exploration: it held on every generated history, it does not prove absence.",
        "level_note": "Trusted: Go 1.24 toolchain, rapid v1.3.0, the harness model and comparators. Inputs are restricted to the property's domain; the two known-finding classes KF1/KF2 (known_findings.json) are excluded by construction and re-probed separately.",
    },
}

_PENDING = "check not built yet in this revision of /verif (planned in DESIGN.md §4)"
NOT_APPLICABLE = {p: _PENDING for p in ["C%02d" % i for i in range(1, 20)]}

"""Human-written texts of MANIFEST.json (levels, notes, techniques)."""

NOTES = ("Technique family: property-based testing and fuzzing. Every check states its property as an executable oracle over generated "
         "inputs / operation histories (pgregory.net/rapid v1.3.0 state machines, exhaustive enumeration of small finite domains, native go fuzzing "
         "in the thorough tier where registered) and shrinks failures to a JSON trace that ./check <id> --replay re-executes without the generator. "
         "Genuine defects found on the pinned tree were repaired by eleven `fix:` commits in /repo (listed in known_findings.json as fixed); three defect "
         "classes are recorded as open known findings (KF1, KF2: C01; KF3: C04), excluded by construction from the generators / oracles and re-probed by the C01 and C04 checks. "
         "See DESIGN.md.")

_TRUST = ("Trusted: Go 1.24 toolchain, rapid v1.3.0 (generation/shrinking only; replay does not use it), the harness' reference model and "
          "independent comparators (harness/model.go, kinds.go), the build-tag-guarded read-only walker where used. ")
_DOMAIN = ("Inputs stay inside the property's stated domain; the known-finding classes KF1/KF2/KF3 (known_findings.json) are excluded by construction and counted in the evidence. "
           "Exploration: held on everything generated, no proof of absence.")

TEXTS = {
    "C01": {
        "technique": "model-based stateful property testing (rapid state machine vs. map model) with derived absent-key sweeps, aliased and unterminated probes, non-scalar rune probes, scale histories",
        "design_ref": "DESIGN.md §4 C01",
        "level_text": "Generated histories over all six tree kinds and every key type are applied to the real tree and to a map model; every Insert/Delete/Search outcome and periodic full sweeps (all stored keys found with their value, derived absent neighbours - truncations, extensions, one-byte changes - not found, no call panics) are compared. Focused templates force the hard classes (probes shorter than / diverging inside a >10-byte path, every grow/shrink threshold, wide fan-out also in collation trees); a bounded-exhaustive closure visits every reachable tree over ten small key universes and probes every universe key in every state; a GOARCH=386 run covers the portable code. Exploration is the right level: the property quantifies over unbounded histories and an executable map oracle is exact.",
        "level_note": _TRUST + _DOMAIN,
    },
    "C02": {
        "technique": "model-based stateful property testing; All()/Backward() compared element-wise with an independently sorted model",
        "design_ref": "DESIGN.md §4 C02",
        "level_text": "The same history generator (with deletes and bulk grow/shrink) runs on every kind; after every 3rd op, at every fan-out peak/trough and at the end (and in every state of the bounded-exhaustive closures) All() must equal the model sorted by a comparator that never calls a go-art encoder (key form and value, element by element) and Backward() its reverse.",
        "level_note": _TRUST + "Collation order = CompareString of a separate x/text collator instance; pairs on which x/text contradicts itself (Compare vs Key) are excluded and counted. " + _DOMAIN,
    },
    "C03": {
        "technique": "model-based stateful property testing; Range results vs. filtered sorted model, bound generators aimed at pruning logic",
        "design_ref": "DESIGN.md §4 C03",
        "level_text": "Histories on byte-string, integer, float and compound trees with Range(a,b) for bounds that are stored, neighbouring, below-min/above-max, equal, reversed, empty (byte strings) or share a long prefix behind a decoy subtree; the result must equal the model filtered by min(a,b) <= k <= max(a,b) in order with values. Derived audits run seven ranges built from the stored keys at every audit point, every returned sequence is consumed twice, and the closures try every ordered pair of universe keys as bounds in every reachable state. The property's carve-outs are skipped and counted.",
        "level_note": _TRUST + _DOMAIN,
    },
    "C04": {
        "technique": "model-based stateful property testing; Prefix results vs. bytes.HasPrefix filter of the sorted model, sibling-splice prefix generator; known finding KF3 (reordered combining marks) excluded and probed",
        "design_ref": "DESIGN.md §4 C04",
        "level_text": "Histories on byte-string trees and on collation trees (6 collators, contraction-free text) with Prefix(p) for p empty, stored, cut inside/at/after a compressed path, extended, spliced from a sibling subtree, longer than every key or unmatched; the result must equal the model filtered by HasPrefix on the original bytes, in tree order, and never panic. Derived audits query prefixes of stored keys cut at 1, len/2, 10, 11, len-1, len; the closures try every prefix of every universe key in every reachable state. One input class is an open known finding (KF3: a prefix that ends between combining marks the collator reorders) and is left unasserted, counted and probed.",
        "level_note": _TRUST + "Collation precondition (primary weights of p+s start with those of p) is checked per query with an independent primary-strength collator; violating queries are carved out and counted. " + _DOMAIN,
    },
    "C05": {
        "technique": "model-based stateful property testing; extremes and TopK/BottomK vs. sorted model incl. empty/singleton/emptied trees, nested wide nodes and scale histories (66k+ entries)",
        "design_ref": "DESIGN.md §4 C05",
        "level_text": "Histories over all kinds with Minimum/Maximum and TopK/BottomK(n) for n in {0,1,size-1,size,size+1,size+17,2^32,random}, (plus 2^31, 2^63 and MaxUint) on never-filled, singleton, emptied and large-fan-out trees (audited right after a node reaches 256 children), compared with the first/last elements of the sorted model.",
        "level_note": _TRUST + _DOMAIN,
    },
    "C06": {
        "technique": "model-based stateful property testing; Size() checked after every op against model, All() count and reachable leaves; scale histories growing one tree past 2^16 entries and emptying it",
        "design_ref": "DESIGN.md §4 C06",
        "level_text": "Size() is compared after every single operation with the model cardinality, the number of pairs All() yields and the number of leaves the hook walker reaches; insertion paths (empty tree, leaf split, inline and >10-byte path split, child add) are classified from consecutive dumps and all occur per run.",
        "level_note": _TRUST + _DOMAIN,
    },
    "C07": {
        "engine": "enumerative",
        "technique": "exhaustive enumeration in value order (8/16-bit quick, 32-bit thorough) + boundary sweeps + dictionary of the library's source literals (and bit-operation neighbours) + rapid-generated pairs/tuples against native comparison",
        "design_ref": "DESIGN.md §4 C07",
        "level_text": "Every value of the 8/16-bit types (quick) and of uint32/int32/float32 (thorough, 2^32 each, sharded) is walked in value order: fixed length, bit-exact round trip and strict byte-order monotonicity on every adjacent pair, which on a finite total order is injectivity plus order isomorphism; 64-bit types get 2^16..2^20-value sweeps around each boundary, all/sampled NaN patterns, generated pairs and generated 2..4-field tuples; the whole run is repeated under GOARCH=386. The enumerated sub-domains are exhaustive; the rest is exploration.",
        "level_note": "Oracle is native Go comparison (integers <, floats IsNaN/Signbit/<), never a go-art function; the rank enumeration that produces neighbours is validated against it. 64-bit types are sampled.",
    },
    "C08": {
        "technique": "model-based stateful property testing on collation trees; order oracle = independent x/text collator instance",
        "design_ref": "DESIGN.md §4 C08",
        "level_text": "Histories (with deletes) on collation trees for 12 collator configurations x string/[]byte and []rune with the default collator, over text mixing case, accents, digits, scripts and long stems; iteration must follow CompareString of a separate collator instance, Search/Delete work by original string (secondary/tertiary variants are distinct keys), yielded keys are byte-identical to the inserted ones.",
        "level_note": _TRUST + "x/text is the definition of the collator's order; stored strings must be pairwise distinguishable (distinct sort keys: KF2 exclusion, counted) and x/text self-consistent on each pair. " + _DOMAIN,
    },
    "C09": {
        "technique": "model-based stateful property testing with per-case generated codecs (random field schemas) vs. field-wise tuple comparator",
        "design_ref": "DESIGN.md §4 C09",
        "level_text": "A schema of 1..4 numeric fields plus optional terminated string is drawn per case, the codec is built in the harness from the library's exported encodings (the documented usage), and histories use every Tree method except Prefix; results must be those of the tuple-lexicographic order and keys come back through the codec's own decoding.",
        "level_note": _TRUST + "Codecs are contract-respecting by construction (fixed-width fields, NUL-free terminated string last). " + _DOMAIN,
    },
    "C10": {
        "engine": "enumerative",
        "technique": "closed state-space enumeration of a bare node over boundary bytes + exhaustive/generated checks of the SWAR/SIMD primitives against a scalar scan + rapid add/remove sequences",
        "design_ref": "DESIGN.md §4 C10",
        "level_text": "A bare node (hook handle) is driven without a tree: breadth-first closure of all reachable states under add/remove of boundary bytes (node4, growth, shrink with stale lanes, merge), exhaustive 4-lane primitive checks on boundary lane words, generated 16-lane arrays (arbitrary bytes in unoccupied lanes) for every fill 0..16 x all 256 probes against a scalar scan, and generated sequences/sweeps across node48/node256; after every step all 256 probes, both enumeration orders, extremes and the counter are checked. Repeated under GOARCH=386 (portable fallback).",
        "level_note": "node16_arm64.s cannot be executed here and is not covered. Node API preconditions respected (add unregistered, remove registered). The hook handle calls the library's own addChild/deleteChild/findChild/all/backward/minimum/maximum.",
    },
    "C11": {
        "technique": "stateful property testing with a structural oracle: dump == independently built compressed radix tree of the key set, after every op",
        "design_ref": "DESIGN.md §4 C11",
        "level_text": "After every operation of generated histories on all kinds the hook dump must equal the compressed radix tree built independently from the current descent keys (reachability, >=2 distinct ascending branch bytes, path bytes, counters, class capacity, leaves == Size). Equality with a function of the key set alone also gives history independence.",
        "level_note": _TRUST + "The walker is plain field reads. " + _DOMAIN,
    },
    "C12": {
        "technique": "stateful property testing over interleaved multi-tree histories with per-tree models and fresh-twin differential, incl. scans of two trees advanced alternately (pull iterators)",
        "design_ref": "DESIGN.md §4 C12",
        "level_text": "2..6 trees of mixed kinds on one goroutine with heavy fan-out churn so that nodes of every class move between trees through the pool; each tree is compared with its own model (results, scans, structure) with the whole query repertoire (extremes, TopK/BottomK, Range, Prefix, scans), and a tree emptied by deletes is shadowed by a freshly constructed tree that must give identical answers (incl. Minimum/Maximum) and the same class-less shape from then on.",
        "level_note": _TRUST + "Pool traffic between trees is measured (class census per op), not assumed. " + _DOMAIN,
    },
    "C13": {
        "technique": "stateful property testing with caller-owned arena slices (spare capacity up to 60 bytes, buffer reuse) and byte-exact arena comparison on byte-string, collation and pass-through-codec compound trees",
        "design_ref": "DESIGN.md §4 C13",
        "level_text": "Every []byte key argument is a sub-slice (offset 0..8, spare capacity 0..3 holding live pattern bytes) of one arena reused for all calls; the arena must be byte-identical after each Insert/Search/Delete/Prefix/Range, is then overwritten, and the tree must still hold exactly the model. What surrounds the key in the buffer is drawn (live pattern, zeros, a zero right behind the key, 0xff).",
        "level_note": _TRUST + _DOMAIN,
    },
    "C14": {
        "technique": "stateful property testing; sequences driven directly with a yield function that stops at a generated position, then re-iterated, also from inside a running pass (nested consumers)",
        "design_ref": "DESIGN.md §4 C14",
        "level_text": "For All, Backward, Prefix, Range, TopK, BottomK on generated trees a sequence value is abandoned after a drawn number of elements (late callbacks are counted, not crashed on) and then iterated completely 1..3 times; every pass must equal a complete pass over a freshly obtained sequence; in half of the cases other read-only calls run between the passes. The closures try every stop position for every method in every reachable state.",
        "level_note": _TRUST + _DOMAIN,
    },
    "C15": {
        "technique": "stateful property testing with raw-state bracketing: byte-exact serialisation of the whole node graph before/after each non-mutating call",
        "design_ref": "DESIGN.md §4 C15",
        "level_text": "Every read-only call, failed Delete and overwriting Insert of generated histories is bracketed by two raw dumps (all node fields incl. dead lanes, addresses, leaf bytes, values, root, size) that must be identical (overwrite: identical but one leaf value); the raw bytes of the tree object itself are part of the dump, and at the end a query-free replica (mutations only) must look and answer exactly like the tree on which queries were interleaved.",
        "level_note": _TRUST + "The collation codec's scratch buffer is not part of the node graph (its growth is C17's subject). " + _DOMAIN,
    },
    "C16": {
        "technique": "concurrent re-execution of rapid-generated per-goroutine histories under the Go race detector, results vs. sequential reference; plus a volume part (goroutines hammering private trees, millions of operations, plain and race builds)",
        "design_ref": "DESIGN.md §4 C16",
        "level_text": "Under -race, goroutines with private trees re-execute generated histories simultaneously (pool shared), and many goroutines query one quiescent tree; GOMAXPROCS and yield points are drawn per case; every reader also runs a fixed battery of special reads so that each query path is executed by all goroutines at once; any race report or deviation from the sequential results is a violation. Part C adds volume: 8-16 goroutines hammer private trees (lookup-dominated, or hovering on the size-class thresholds) or one shared quiescent tree for millions of operations, in a plain and a race build.",
        "level_note": "Schedules are sampled, not enumerated; a race whose two accesses never both execute in a sampled run is missed. The race detector reports no false positives.",
    },
    "C17": {
        "technique": "generated long-running scenarios with live-heap measurement at geometric checkpoints (N,2N,4N,8N operations), emptied / fill-and-drain / big-value scattered-survivor phases",
        "design_ref": "DESIGN.md §4 C17",
        "level_text": "rapid draws kind, key set and operation mix; 8N operations run (N=1e5 quick, 1e6 thorough) and live heap after forced collections is sampled at 0,N,2N,4N,8N: growth above 1 MiB that shows in at least two intervals is a leak; mixes: lookups only, sequences only, all reads, overwrites, churn of a fixed key set, sliding window of ever fresh keys, waves, mixed; after deleting every key, and again after a 30 000-key fill-and-drain, the tree may retain at most 256 KiB; three phases with 64 KiB values (scattered survivors, thinning of the scenario's key set, deleted extreme leaf of 128 groups) compare what is kept alive with the survivors' share or with a tree built from the survivors.",
        "level_note": "A measurement against thresholds, not a bound proof; leaks below ~0.7 B/op (quick) / ~0.15 B/op (thorough) escape. Over-threshold emptied-tree measurements are re-taken up to three times.",
    },
    "C18": {
        "technique": "stateful property testing under GC pressure (GC percent 1, forced collections, finalizer oracle) with a checkptr-instrumented build",
        "design_ref": "DESIGN.md §4 C18",
        "level_text": "Histories on all kinds x 7 value types run with GC percent 1 and forced collections at drawn points in a -d=checkptr binary; stored keys/values are re-verified against content recomputed from ids and no finalizer of a stored pointer value may have run; value objects are also re-filed under other keys (moved, not rebuilt), and a second scenario runs moves/overwrites/deletes on trees of 30 000-100 000 entries so that operations overlap long mark phases.",
        "level_note": _TRUST + "Collector timing is forced, not enumerated. The model keeps ids only. " + _DOMAIN,
    },
    "C19": {
        "engine": "script",
        "technique": "exhaustive differential check: generator output (scratch copy) vs. checked-in trees.go, whole file and per instantiation",
        "design_ref": "DESIGN.md §4 C19",
        "level_text": "The generator plus gofmt is executed on the current working tree in a scratch copy and compared byte for byte with trees.go, as a whole and for each of the five instantiations. The domain is finite and enumerated completely; there is nothing to randomise, which is the degenerate case of a differential test.",
        "level_note": "Trusted: the Go toolchain's text/template and gofmt. No generation involved.",
    },
}

NOT_APPLICABLE = {}

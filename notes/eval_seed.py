#!/usr/bin/env python3
"""Evaluates a seeded change produced by a sub-agent in /tmp/seed-<id>[suffix].

  python3 notes/eval_seed.py <property id> <worktree dir> <seed name> [extra check ids ...]

Steps: extract the patch; confirm that the repository suite passes with it and that the
demonstration fails with / passes without it; run the property's quick check (and the
extra ones) against a scratch copy of /repo carrying the patch (VERIF_REPO); store
patch.diff, the demonstration, the notes and meta.json under /verif/seeded/<seed name>/.
Development aid, not a registered command.
"""
import json, os, shutil, subprocess, sys, tempfile, time

VERIF = os.path.dirname(os.path.dirname(os.path.abspath(__file__)))
ENV = dict(os.environ, GOFLAGS="-mod=mod", GOPROXY="off")


def sh(cmd, cwd, timeout=1800, env=None):
    p = subprocess.run(cmd, cwd=cwd, shell=True, capture_output=True, text=True, timeout=timeout, env=env or ENV)
    return p.returncode, (p.stdout + p.stderr)


def main():
    pid, wt, name = sys.argv[1:4]
    extra = sys.argv[4:]
    out = os.path.join(VERIF, "seeded", name)
    os.makedirs(out, exist_ok=True)
    meta = {"seed": name, "property": pid, "worktree": wt, "ran": []}

    rc, patch = sh("git diff -- . ':!seed_demo_test.go' ':!SEED_NOTES.md'", wt)
    if not patch.strip():
        print("no tracked changes in", wt)
        return 1
    open(os.path.join(out, "patch.diff"), "w").write(patch)
    for f in ("seed_demo_test.go", "SEED_NOTES.md"):
        if os.path.exists(os.path.join(wt, f)):
            shutil.copy(os.path.join(wt, f), os.path.join(out, f))
    rc, files = sh("git diff --name-only", wt)
    meta["changed_files"] = files.split()

    # confirmations in a scratch copy (the agent's worktree is left alone)
    scratch = tempfile.mkdtemp(prefix="seedeval-", dir="/tmp")
    try:
        subprocess.run(["rsync", "-a", "--exclude", ".git", "--exclude", "bench", "/repo/", scratch + "/"], check=True)
        rc, o = sh("patch -p1 --no-backup-if-mismatch < %s" % os.path.join(out, "patch.diff"), scratch)
        meta["patch_applies_to_repo_head"] = rc == 0
        if rc != 0:
            meta["patch_error"] = o[-500:]
        demo = os.path.join(out, "seed_demo_test.go")
        has_demo = os.path.exists(demo)
        # 1. suite with the change, without the demo
        rc, o = sh("go build ./... && go build -tags verif ./... && go test -vet=off -count=1 ./...", scratch)
        meta["suite_passes_with_change"] = rc == 0
        meta["ran"].append("go build ./... && go build -tags verif ./... && go test -vet=off -count=1 ./...  (scratch copy of /repo + patch) -> exit %d" % rc)
        if rc != 0:
            meta["suite_tail"] = o[-800:]
        # 2. demo with the change
        if has_demo:
            shutil.copy(demo, os.path.join(scratch, "seed_demo_test.go"))
            rc, o = sh("go test -vet=off -count=1 -run 'TestSeedDemo' .", scratch)
            meta["demo_fails_with_change"] = rc != 0
            meta["demo_output_with_change"] = o[-600:]
            meta["ran"].append("go test -run TestSeedDemo . (with patch) -> exit %d" % rc)
            # 3. demo on the unchanged tree
            clean = tempfile.mkdtemp(prefix="seedclean-", dir="/tmp")
            try:
                subprocess.run(["rsync", "-a", "--exclude", ".git", "--exclude", "bench", "/repo/", clean + "/"], check=True)
                shutil.copy(demo, os.path.join(clean, "seed_demo_test.go"))
                rc, o = sh("go test -vet=off -count=1 -run 'TestSeedDemo' .", clean)
                meta["demo_passes_without_change"] = rc == 0
                meta["ran"].append("go test -run TestSeedDemo . (unchanged /repo copy) -> exit %d" % rc)
                if rc != 0:
                    meta["demo_output_without_change"] = o[-600:]
            finally:
                shutil.rmtree(clean, ignore_errors=True)
            os.remove(os.path.join(scratch, "seed_demo_test.go"))
        # 4. our checks against the patched copy
        meta["checks"] = {}
        if True:
            for cid in [pid] + extra:
                t0 = time.time()
                env = dict(os.environ, VERIF_REPO=scratch, VERIF_EVIDENCE_DIR=os.path.join(scratch, ".verif-evidence"), VERIF_REPLAY_DIR=os.path.join(VERIF, "seeded", name, "replays"))
                p = subprocess.run([os.path.join(VERIF, "check"), cid, os.environ.get("SEED_TIER", "quick")], cwd=VERIF, env=env, capture_output=True, text=True, timeout=7200)
                lines = p.stdout.splitlines()
                vio = [l for l in lines if l.startswith("VIOLATION")]
                msg = ""
                if vio:
                    i = lines.index(vio[0])
                    msg = "\n".join(lines[i + 1:i + 2]).strip()[:400]
                meta["checks"][cid] = {"exit": p.returncode, "caught": bool(vio), "wall_s": round(time.time() - t0, 1), "message": msg,
                                       "tail": "" if p.returncode in (0, 1) else (p.stdout + p.stderr)[-600:]}
                meta["ran"].append("VERIF_REPO=<scratch copy + patch> ./check %s %s -> exit %d" % (cid, os.environ.get("SEED_TIER", "quick"), p.returncode))
    finally:
        shutil.rmtree(scratch, ignore_errors=True)
    json.dump(meta, open(os.path.join(out, "meta.json"), "w"), indent=1)
    print(json.dumps({k: meta[k] for k in meta if k in ("seed", "property", "changed_files", "suite_passes_with_change", "demo_fails_with_change", "demo_passes_without_change", "checks")}, indent=1))
    return 0


if __name__ == "__main__":
    sys.exit(main())

#!/usr/bin/env python3
"""Sensitivity protocol (DESIGN.md §7): applies realistic edits to a scratch copy of /repo,
checks that the repository's own test suite still passes there (the edit would survive
it), and runs the quick check of the targeted property against the scratch copy
(VERIF_REPO). Development aid, not a registered command.

  python3 notes/mutants.py [-j N] [id ...]      run all / the named mutants
Results are appended to notes/sensitivity.jsonl and summarised on stdout.
"""
import json, os, re, shutil, subprocess, sys, tempfile, time
from concurrent.futures import ThreadPoolExecutor

VERIF = os.path.dirname(os.path.dirname(os.path.abspath(__file__)))
GO = "/root/go/pkg/mod/golang.org/toolchain@v0.0.1-go1.24.0.linux-amd64/bin/go"
ENV = dict(os.environ, GOFLAGS="-mod=mod", GOPROXY="off", GOTOOLCHAIN="local", GOSUMDB="off")


def R(file, old, new, count=1, nth=None):
    return ("replace", file, old, new, count, nth)


# (id, property checks expected to catch it, [edits], note)
MUTANTS = [
    ("m01_search_no_leafcmp", ["C01"], [R("trees.go", "\t\tif bytes.Equal(leaf.getKey(), keyS) {\n\t\t\treturn leaf.value, true\n\t\t}\n\t\treturn notFound, false", "\t\treturn leaf.value, true", nth=0)],
     "alpha Search returns the leaf it lands on without comparing the full key"),
    ("m02_no_bound_check_delete", ["C01"], [R("trees.go", "\t\tif depth >= len(keyS) {\n\t\t\treturn false\n\t\t}\n\n", "", nth=0)],
     "revert D1 for alpha Delete only"),
    ("m03_merge_without_plus1", ["C01", "C11", "C02"], [R("node.go", "childNode.prefixLen += n4.prefixLen + 1", "childNode.prefixLen += n4.prefixLen")],
     "merging a node4 into its only child forgets the branch byte"),
    ("m04_findchild_no_len_check", ["C10", "C01"], [R("node.go", "i != -1 && i < int(n4.childrenLen)", "i != -1")],
     "findChild on node4 accepts stale lanes"),
    ("m05_collation_search_by_sortkey", ["C08", "C01"], [R("collation.go", "\t\t\tif bytes.Equal(leaf.getKey(), keyS) {\n\t\t\t\treturn leaf.value, true\n\t\t\t}\n\t\t\treturn notFound, false", "\t\t\tif len(keyS) >= 0 && bytes.Equal(leaf.getTransformKey(), colKey) {\n\t\t\t\treturn leaf.value, true\n\t\t\t}\n\t\t\treturn notFound, false")],
     "collation Search tells keys apart by sort key instead of original bytes"),
    ("m06_insertpos16_no_bias", ["C10", "C02"], [R("node16_amd64.s", "\tPXOR\t\tvTmp, vBitfield\n\tPXOR\t\tvTmp, vMask\n", "")],
     "signed compare in insertPosNode16 (bytes >= 0x80 sort before smaller ones)"),
    ("m07_all_skips_byte0_node48", ["C02", "C10"], [R("tree.go", "\t\t\t\tfor i := 255; i >= 0; i-- {\n\t\t\t\t\tidx := n48.keys[i]\n\t\t\t\t\tif idx == 0 {\n\t\t\t\t\t\tcontinue\n\t\t\t\t\t}\n\t\t\t\t\tq = append(q, n48.children[idx-1])", "\t\t\t\tfor i := 255; i >= 1; i-- {\n\t\t\t\t\tidx := n48.keys[i]\n\t\t\t\t\tif idx == 0 {\n\t\t\t\t\t\tcontinue\n\t\t\t\t\t}\n\t\t\t\t\tq = append(q, n48.children[idx-1])", nth=0)],
     "All() skips the child under byte 0x00 of a node48"),
    ("m08_float32_plus1", ["C07", "C02", "C01"], [R("keys.go", "\t\t\ti ^= mask2\n\t\t\ti += 2\n\t\t}\n\n\t\tb = make([]byte, 4)", "\t\t\ti ^= mask2\n\t\t\ti += 1\n\t\t}\n\n\t\tb = make([]byte, 4)")],
     "float32 offset +1 instead of +2 (collides with -Inf code, breaks round trip)"),
    ("m09_shrink48_reverse_order", ["C02", "C10", "C11"], [R("node.go", "\t\tchildren := 0\n\t\tfor i := 0; i < 256; i++ {", "\t\tchildren := 0\n\t\tfor i := 255; i >= 0; i-- {")],
     "node48 -> node16 shrink fills the node16 in descending byte order"),
    ("m10_range_end_exclusive", ["C03"], [R("tree.go", "if bytes.Compare(leaf.getKey(), end) > 0 {", "if bytes.Compare(leaf.getKey(), end) >= 0 {")],
     "Range excludes the upper bound"),
    ("m11_range_no_swap_unsigned", ["C03"], [R("trees.go", "\tif start > end {\n\t\t// IDEA: maybe do the iteration in reverse instead?\n\t\tstart, end = end, start\n\t}\n", "", nth=0)],
     "unsigned Range does not swap reversed bounds"),
    ("m12_range_global_depth", ["C03"], [R("tree.go", "childDepth := depth + int(node.prefixLen) + 1", "childDepth := depth + int(node.prefixLen) + 2")],
     "rangeScan child depth off by one (prunes with the wrong offset)"),
    ("m13_prefix_descends_too_far", ["C04"], [R("tree.go", "\t\tif depth >= len(prefix) {\n\t\t\treturn n\n\t\t}\n\n\t\tchild := n.findChild(prefix[depth])", "\t\tif depth > len(prefix) {\n\t\t\treturn n\n\t\t}\n\t\tif depth == len(prefix) {\n\t\t\tif c := n.findChild(0); c != nil {\n\t\t\t\treturn *c\n\t\t\t}\n\t\t\treturn n\n\t\t}\n\n\t\tchild := n.findChild(prefix[depth])")],
     "lowestCommonParent descends into the terminator child when the prefix ends at a branch point"),
    ("m14_collation_prefix_full_key", ["C04"], [R("collation.go", "lowestCommonParent[V, *collateLeafNode[V]](root, primaryWeights(colKey))", "lowestCommonParent[V, *collateLeafNode[V]](root, colKey)")],
     "collation Prefix descends with the full sort key (level separators included)"),
    ("m15_maximum_node48_from_254", ["C05", "C10"], [R("tree.go", "\t\t\tidx := 255\n\t\t\tn48 := (*node48)(ref.pointer)", "\t\t\tidx := 254\n\t\t\tn48 := (*node48)(ref.pointer)")],
     "maximum() on a node48 ignores byte 0xFF"),
    ("m16_topk_over_all", ["C05"], [R("tree.go", "for key, val := range t.Backward() {", "for key, val := range t.All() {")],
     "TopK iterates ascending"),
    ("m17_bottomk_off_by_one", ["C05"], [R("tree.go", "\t\tfor key, val := range t.All() {\n\t\t\tif k == 0 {\n\t\t\t\treturn\n\t\t\t}\n", "\t\tfor key, val := range t.All() {\n\t\t\tif k <= 1 {\n\t\t\t\treturn\n\t\t\t}\n")],
     "BottomK yields k-1 elements"),
    ("m18_size_on_overwrite", ["C06"], [R("trees.go", "\t\tif bytes.Equal(keyS, nl.getKey()) {\n\t\t\tnl.value = val\n\t\t\treturn\n\t\t}", "\t\tif bytes.Equal(keyS, nl.getKey()) {\n\t\t\tnl.value = val\n\t\t\tt.size++\n\t\t\treturn\n\t\t}", nth=2)],
     "signed tree counts an overwrite as a new key"),
    ("m19_size_before_leafcmp", ["C06"], [R("collation.go", "\t\t\tif bytes.Equal(leaf.getKey(), keyS) {\n\t\t\t\tref.deleteChild(colKey[depth])\n\t\t\t\tt.size--\n\t\t\t\treturn true\n\t\t\t}\n\n\t\t\treturn false", "\t\t\tt.size--\n\t\t\tif bytes.Equal(leaf.getKey(), keyS) {\n\t\t\t\tref.deleteChild(colKey[depth])\n\t\t\t\treturn true\n\t\t\t}\n\n\t\t\treturn false")],
     "collation Delete decrements size before comparing the leaf"),
    ("m20_int16_wrong_flip", ["C07"], [R("keys.go", "(*(*uint16)(unsafe.Pointer(&k)))^0x8000)", "(*(*uint16)(unsafe.Pointer(&k)))^0x0080)")],
     "int16 transform flips the wrong bit (Restore unchanged)"),
    ("m21_float64_mask2_nosign", ["C07"], [R("keys.go", "mask2 := *(*uint64)(unsafe.Pointer(&mask)) | 0x8000000000000000", "mask2 := *(*uint64)(unsafe.Pointer(&mask)) | 0x4000000000000000")],
     "float64 transform mask without the sign bit"),
    ("m22_collation_no_terminator", ["C08", "C01"], [R("keys.go", "colKey := make([]byte, len(key)+2)", "colKey := make([]byte, len(key))")],
     "revert D9"),
    ("m23_collation_restore_from_src", ["C08", "C02"], [R("collation.go", "\treturn K(string(l.getKey())), l.value", "\t_ = l.getKey()\n\treturn t.cok.src, l.value")],
     "collation restoreKey returns the last transformed key instead of the stored one"),
    ("m24_compound_range_wrong_leaf_cmp", ["C09", "C03"], [R("trees.go", "\tif bytes.Compare(startKey, endKey) > 0 { // start > end\n\t\t// IDEA: maybe do the iteration in reverse instead?\n\t\tstartKey, endKey = endKey, startKey\n\t}\n\n\treturn rangeScan[K, V, *compoundLeafNode[V]]", "\treturn rangeScan[K, V, *compoundLeafNode[V]]")],
     "compound Range does not swap reversed bounds"),
    ("m25_search16_no_fill_mask", ["C10"], [R("node16_amd64.s", "\tSALW\t\trChildrenLen, rMask\n\tSUBW\t\t$1, rMask\n\n\tANDW\t\trMask, rIdx\n\n\tCMPW\t\trIdx, $0\n\tJEQ\t\tnot_found\n \n\tTZCNTW\t\trIdx, rIdx\n\tMOVD\t\trIdx, ret+16(FP)\n\tRET\n\t\nnot_found:\n\tMOVD \t\t$-1, rIdx\n\tMOVD\t\trIdx, ret+16(FP)\n\tRET\n", "\tCMPW\t\trIdx, $0\n\tJEQ\t\tnot_found\n \n\tTZCNTW\t\trIdx, rIdx\n\tMOVD\t\trIdx, ret+16(FP)\n\tRET\n\t\nnot_found:\n\tMOVD \t\t$-1, rIdx\n\tMOVD\t\trIdx, ret+16(FP)\n\tRET\n", nth=1)],
     "searchNode16 (amd64) ignores the fill count: stale lanes match"),
    ("m26_shiftrightclear_off", ["C10", "C01"], [R("node4.go", "\t*keys &= ^(mask >> 8)  // clear", "\t*keys &= ^(mask >> 16) // clear")],
     "shiftRightClear clears the wrong lanes"),
    ("m27_node48_delete_keeps_len", ["C11", "C10"], [R("node.go", "\tn48.children[pos-1].pointer = nil\n\tn48.childrenLen--", "\tn48.children[pos-1].pointer = nil\n\tif n48.childrenLen > 13 {\n\t\tn48.childrenLen--\n\t}\n\tif n48.childrenLen == 13 {\n\t\tn48.childrenLen = 12\n\t}")],
     "node48 fan-out counter skips 13 (shrinks one delete early, counter wrong)"),
    ("m28_split_keeps_child_path", ["C11", "C01"], [R("trees.go", "\t\t\t\t\tnode.prefixLen -= uint32(loLimit)\n\t\t\t\t\tcopy(node.prefix[:], node.prefix[loLimit:])", "\t\t\t\t\tnode.prefixLen -= uint32(loLimit)", nth=0)],
     "alpha path split shortens the child's path length but not its inline bytes"),
    ("m29_n48_no_clear", ["C12"], [R("node.go", "\t\tn48.clear()\n\t\tnodePools[nodeKind48].Put(n48)\n\t}\n}\n\ntype node256", "\t\tnodePools[nodeKind48].Put(n48)\n\t}\n}\n\ntype node256")],
     "node48 returned to the pool on shrink without being cleared"),
    ("m30_clear_keeps_prefixlen", ["C12", "C11"], [R("node.go", "func (n4 *node4) clear() {\n\tclear(n4.children[:])\n\tn4.node = node{}", "func (n4 *node4) clear() {\n\tclear(n4.children[:])\n\tn4.node = node{prefixLen: n4.prefixLen}")],
     "node4.clear leaves prefixLen behind"),
    ("m31_range_append_alias", ["C13"], [R("trees.go", "startKey = append(startKey[:len(startKey):len(startKey)], '\\x00')", "startKey = append(startKey, '\\x00')")],
     "revert D7 for the Range start bound"),
    ("m32_insert_append_alias", ["C13"], [R("trees.go", "keyS = append(keyS[:len(keyS):len(keyS)], '\\x00') // never write into the caller's spare capacity\n\n\tcreateLeaf", "keyS = append(keyS, '\\x00')\n\n\tcreateLeaf")],
     "revert D7 for Insert"),
    ("m33_filter_ignores_yield", ["C14"], [R("tree.go", "\t\t\t\tif predicate(k, v) {\n\t\t\t\t\tif !yield(k, v) {\n\t\t\t\t\t\treturn\n\t\t\t\t\t}\n\t\t\t\t}", "\t\t\t\tif predicate(k, v) {\n\t\t\t\t\tyield(k, v)\n\t\t\t\t}")],
     "Prefix keeps calling back after the consumer stopped"),
    ("m34_topk_shared_k", ["C14"], [R("tree.go", "\t\tk := k // every iteration of the sequence counts from the full k\n", "", nth=0)],
     "revert D6 for TopK"),
    ("m35_delete_before_cmp", ["C15", "C01"], [R("trees.go", "\t\t\tif bytes.Equal(leaf.getKey(), keyS) {\n\t\t\t\tref.deleteChild(keyS[depth])\n\t\t\t\tt.size--\n\t\t\t\treturn true\n\t\t\t}\n\n\t\t\treturn false", "\t\t\tif len(leaf.getKey()) == len(keyS) {\n\t\t\t\tref.deleteChild(keyS[depth])\n\t\t\t\tt.size--\n\t\t\t\treturn true\n\t\t\t}\n\n\t\t\treturn false", nth=1)],
     "unsigned Delete removes the leaf it lands on if only the length matches"),
    ("m36_overwrite_recreates_leaf", ["C15"], [R("trees.go", "\t\tif bytes.Equal(keyS, nl.getKey()) {\n\t\t\tnl.value = val\n\t\t\treturn\n\t\t}", "\t\tif bytes.Equal(keyS, nl.getKey()) {\n\t\t\t*ref = nodeRef{pointer: createLeaf(), tag: nodeKindLeaf}\n\t\t\treturn\n\t\t}", nth=0)],
     "alpha Insert(present) replaces the leaf object instead of only its value"),
    ("m37_search_move_to_front", ["C15", "C16"], [R("node.go", "\t\tif i := searchNode4(n4.keys, b); i != -1 && i < int(n4.childrenLen) {\n\t\t\treturn &n4.children[i]\n\t\t}", "\t\tif i := searchNode4(n4.keys, b); i != -1 && i < int(n4.childrenLen) {\n\t\t\tn4.prefix[maxPrefixLen-1] = n4.prefix[maxPrefixLen-1] // touch\n\t\t\tif n4.prefixLen < maxPrefixLen {\n\t\t\t\tn4.prefix[maxPrefixLen-1] = b // remember the last hit in the unused tail of the inline path\n\t\t\t}\n\t\t\treturn &n4.children[i]\n\t\t}")],
     "findChild (used by Delete/Prefix) writes a 'last hit' byte into the node"),
    ("m38_pool_unsynchronised", ["C16"], [R("pool.go", "import \"sync\"", "import \"sync\"\n\nvar spare4 []*node4\n\nfunc init() {\n\tnodePools[nodeKind4].New = func() any {\n\t\tif n := len(spare4); n > 0 {\n\t\t\tx := spare4[n-1]\n\t\t\tspare4 = spare4[:n-1]\n\t\t\treturn x\n\t\t}\n\t\tfor i := 0; i < 8; i++ {\n\t\t\tspare4 = append(spare4, new(node4))\n\t\t}\n\t\treturn new(node4)\n\t}\n}"),
                                         R("pool.go", "\t{New: func() any { return new(node4) }},   // nodeKind4", "\t{}, // nodeKind4 (New set in init)")],
     "node4 pool refills from an unsynchronised free list"),
    ("m39_search_stat_counter", ["C16", "C15"], [R("trees.go", "\tvar notFound V\n\n\tn := t.root\n\tdepth := 0\n", "\tvar notFound V\n\n\tn := t.root\n\tdepth := 0\n\tt.size += 0\n\tlastDepth = depth\n", nth=0), R("trees.go", "type alphaSortedTree[K chars, V any] struct {", "var lastDepth int\n\ntype alphaSortedTree[K chars, V any] struct {")],
     "alpha Search writes a package-level statistic"),
    ("m40_collation_no_reset", ["C17"], [R("keys.go", "\tcok.buf.Reset()\n", "")],
     "revert D8"),
    ("m41_deleted_leaves_kept", ["C17"], [R("trees.go", "\t\t\tif bytes.Equal(leaf.getKey(), keyS) {\n\t\t\t\tref.deleteChild(keyS[depth])\n\t\t\t\tt.size--\n\t\t\t\treturn true\n\t\t\t}", "\t\t\tif bytes.Equal(leaf.getKey(), keyS) {\n\t\t\t\tref.deleteChild(keyS[depth])\n\t\t\t\tt.size--\n\t\t\t\tgraveyard = append(graveyard, child.pointer)\n\t\t\t\treturn true\n\t\t\t}", nth=0), R("trees.go", "type alphaSortedTree[K chars, V any] struct {", "var graveyard []unsafe.Pointer\n\ntype alphaSortedTree[K chars, V any] struct {")],
     "alpha Delete keeps every deleted leaf on a package-level list"),
    ("m42_leaf_key_hidden_from_gc", ["C18"], [R("trees.go", "\t\treturn unsafe.Pointer(&floatLeafNode[V]{\n\t\t\tkey:   unsafe.SliceData(keyS),", "\t\thidden := uintptr(unsafe.Pointer(unsafe.SliceData(keyS))) // the key bytes are referenced by an integer only\n\t\tkeyS = nil\n\t\truntime.Gosched()\n\t\treturn unsafe.Pointer(&floatLeafNode[V]{\n\t\t\tkey:   (*byte)(unsafe.Pointer(hidden + uintptr(len(keyS)))),"),
                                      R("trees.go", "import (\n\t\"bytes\"\n\t\"iter\"\n\t\"unsafe\"\n)", "import (\n\t\"bytes\"\n\t\"iter\"\n\t\"runtime\"\n\t\"unsafe\"\n)")],
     "float leaf key pointer round-trips through uintptr across a scheduling point (checkptr / GC may lose it)"),
    ("m43_signed_leaf_reordered", ["C18", "C03"], [R("trees.go", "type signedLeafNode[V any] struct {\n\tkey   *byte\n\tvalue V\n\tlen   uint32\n}", "type signedLeafNode[V any] struct {\n\tvalue V\n\tkey   *byte\n\tlen   uint32\n}")],
     "signed leaf layout differs from the unsigned leaf that Range reads it through"),
    ("n01_prefixmismatch_short", ["C01", "C11"], [R("tree.go", "\t\tmaxCmp = min(int(len(leafKey)), len(key)) - depth\n", "\t\tmaxCmp = min(int(len(leafKey)), len(key)) - depth - 1\n")],
     "prefixMismatch stops one byte early on paths longer than the inline bytes"),
    ("n03_shrink256_index_off", ["C10", "C01"], [R("node.go", "\t\t\t\tn48.keys[i] = uint8(pos + 1)", "\t\t\t\tn48.keys[i] = uint8(pos)")],
     "node256 -> node48 shrink writes slot indexes off by one"),
    ("n04_merge_skips_child_prefix", ["C11", "C01"], [R("node.go", "\t\t\t\tcopy(n4.prefix[prefix:], childNode.prefix[:])\n", "")],
     "node4 merge does not append the child's inline path bytes"),
    ("n05_longsplit_prefix_off", ["C11", "C01"], [R("trees.go", "\t\t\t\t\tloLimit := depth + prefixDiff + 1\n\t\t\t\t\tcopy(node.prefix[:], leafKey[loLimit:])", "\t\t\t\t\tloLimit := depth + prefixDiff\n\t\t\t\t\tcopy(node.prefix[:], leafKey[loLimit:])", nth=0)],
     "alpha long-path split copies the child's inline bytes from one byte too early"),
    ("n08_root_leaf_delete_no_size", ["C06"], [R("trees.go", "\t\t\tif bytes.Equal(leaf.getKey(), keyS) {\n\t\t\t\t*ref = nodeRef{}\n\t\t\t\tt.size--\n\t\t\t\treturn true\n\t\t\t}", "\t\t\tif bytes.Equal(leaf.getKey(), keyS) {\n\t\t\t\t*ref = nodeRef{}\n\t\t\t\treturn true\n\t\t\t}", nth=3)],
     "float tree: deleting the last key (root leaf) does not decrement size"),
    ("n10_float64_restore_mask", ["C07", "C02"], [R("keys.go", "\t\tmask := ((i >> 63) - 1) | 0x8000000000000000", "\t\tmask := ((i >> 63) - 1) | 0x4000000000000000")],
     "float64 Restore mask wrong"),
    ("n11_uint16_restore_little_endian", ["C07", "C02"], [R("keys.go", "\t\treturn K(binary.BigEndian.Uint16(b))\n\tcase uint32:", "\t\treturn K(binary.LittleEndian.Uint16(b))\n\tcase uint32:")],
     "uint16 Restore reads little-endian"),
    ("n12_alpha_range_empty_end_ignored", ["C03"], [R("trees.go", "\tif len(end) == 0 {\n\t\tend, _ = t.restoreKey(maximum[V](t.root))\n\t}\n\n\tif bytes.Compare([]byte(start), []byte(end)) > 0 { // start > end", "\tif bytes.Compare([]byte(start), []byte(end)) > 0 { // start > end")],
     "alpha Range treats an empty end bound as the empty key"),
    ("n13_backward_node16_off_by_one", ["C02", "C10"], [R("tree.go", "\t\t\t\tfor i := uint8(0); i < n16.childrenLen; i++ {\n\t\t\t\t\tq = append(q, n16.children[i])\n\t\t\t\t}", "\t\t\t\tfor i := uint8(1); i < n16.childrenLen; i++ {\n\t\t\t\t\tq = append(q, n16.children[i])\n\t\t\t\t}\n\t\t\t\tif n16.childrenLen > 0 && n16.keys[0] != 0x33 {\n\t\t\t\t\tq = append(q[:len(q):len(q)], n16.children[0])\n\t\t\t\t\tcopy(q[len(q)-int(n16.childrenLen)+1:], q[len(q)-int(n16.childrenLen):len(q)-1])\n\t\t\t\t\tq[len(q)-int(n16.childrenLen)] = n16.children[0]\n\t\t\t\t}")],
     "Backward() drops the first child of a node16 when its byte is 0x33"),
    ("m44_trees_only_edit", ["C19"], [R("trees.go", "func (t *floatSortedTree[K, V]) Size() int { return t.size }", "func (t *floatSortedTree[K, V]) Size() int { return t.size + 0 }")],
     "trees.go edited by hand"),
    ("m45_template_only_edit", ["C19"], [R("cmd/go-art/tree.tmpl", "func (t *{{ .Name }}[K, V]) Size() int { return t.size }", "func (t *{{ .Name }}[K, V]) Size() int { return t.size + 0 }")],
     "template edited without regenerating"),
    ("n14_range_stack_shared", ["C14", "C15"], [
        R("tree.go", "\t\ttype item struct {\n\t\t\tref   nodeRef\n\t\t\tdepth int\n\t\t}\n\t\tvar q []item\n", "\t\tq := rsScratch[:0]\n\t\tdefer func() { rsScratch = q[:0] }()\n"),
        R("tree.go", "func rangeScan[K nodeKey, V any, L nodeLeaf[V]](", "type item struct {\n\tref   nodeRef\n\tdepth int\n}\n\nvar rsScratch []item\n\nfunc rangeScan[K nodeKey, V any, L nodeLeaf[V]](")],
     "Range's descent stack is one package-level slice reused by every scan: a Range started while another Range pass is under way (nested consumers, a query in the loop body) shares it"),
]


def apply_edits(root, edits):
    for kind, file, old, new, count, nth in edits:
        p = os.path.join(root, file)
        s = open(p).read()
        if old not in s:
            raise RuntimeError("pattern not found in %s: %r" % (file, old[:60]))
        if nth is None:
            if s.count(old) != count:
                raise RuntimeError("pattern occurs %d times in %s (expected %d): %r" % (s.count(old), file, count, old[:60]))
            s = s.replace(old, new)
        else:
            parts = s.split(old)
            if nth >= len(parts) - 1:
                raise RuntimeError("occurrence %d not found in %s" % (nth, file))
            s = old.join(parts[:nth + 1]) + new + old.join(parts[nth + 1:])
        open(p, "w").write(s)


def run_one(m, tier="quick"):
    mid, props, edits, note = m
    root = tempfile.mkdtemp(prefix="mut-%s-" % mid, dir="/tmp")
    res = {"id": mid, "note": note, "props": props}
    try:
        subprocess.run(["rsync", "-a", "--exclude", ".git", "--exclude", "bench", "/repo/", root + "/"], check=True)
        try:
            apply_edits(root, edits)
        except RuntimeError as e:
            res["error"] = str(e)
            return res
        t0 = time.time()
        p = subprocess.run([GO, "test", "-vet=off", "-count=1", "."], cwd=root, env=ENV, capture_output=True, text=True, timeout=900)
        res["suite_passes"] = p.returncode == 0
        res["suite_s"] = round(time.time() - t0, 1)
        if p.returncode != 0:
            res["suite_tail"] = (p.stdout + p.stderr)[-600:]
        res["checks"] = {}
        for pid in props:
            t0 = time.time()
            env = dict(os.environ, VERIF_REPO=root, VERIF_EVIDENCE_DIR=os.path.join(root, ".verif-evidence"), VERIF_REPLAY_DIR=os.path.join(root, ".verif-replays"))
            q = subprocess.run([os.path.join(VERIF, "check"), pid, tier], cwd=VERIF, env=env, capture_output=True, text=True, timeout=3600)
            line = next((l for l in q.stdout.splitlines() if l.startswith("VIOLATION")), "")
            msg = ""
            if line:
                i = q.stdout.splitlines().index(line)
                msg = "\n".join(q.stdout.splitlines()[i + 1:i + 2])[:300]
            res["checks"][pid] = {"exit": q.returncode, "wall_s": round(time.time() - t0, 1), "violation": bool(line), "msg": msg.strip(),
                                  "tail": "" if q.returncode in (0, 1) else (q.stdout + q.stderr)[-500:]}
        return res
    finally:
        shutil.rmtree(root, ignore_errors=True)


def main():
    args = sys.argv[1:]
    j = 3
    if args[:1] == ["-j"]:
        j = int(args[1]); args = args[2:]
    todo = [m for m in MUTANTS if not args or m[0] in args or any(a in m[1] for a in args)]
    # evidence and replays written by mutant runs are not to be kept: save and restore them
    with ThreadPoolExecutor(max_workers=j) as ex:
        results = list(ex.map(run_one, todo))
    with open(os.path.join(VERIF, "notes", "sensitivity.jsonl"), "a") as f:
        for r in results:
            f.write(json.dumps(r) + "\n")
    for r in results:
        if "error" in r:
            print("%-34s ERROR %s" % (r["id"], r["error"]))
            continue
        cs = " ".join("%s:%s(%ss)" % (p, "CAUGHT" if c["violation"] else ("exit%d" % c["exit"]), c["wall_s"]) for p, c in r["checks"].items())
        print("%-34s suite=%s  %s" % (r["id"], "pass" if r["suite_passes"] else "FAIL", cs))


if __name__ == "__main__":
    main()

#!/usr/bin/env python3
"""Systematic mutation run (development aid, DESIGN.md §10.4).

Generates first-order mutants of go-art's non-test sources with a few textual
operators (relational / arithmetic / constant / boolean replacement, statement
deletion, break<->continue), applies each to a scratch copy of /repo, builds the
harness against it once, and runs the quick history checks, closures and
enumerations from that binary (reduced case counts) until one reports a
violation. Survivors are listed for manual analysis (equivalent mutant or blind
spot?).

  python3 notes/mutgen.py [-j N] [--limit K] [--files node.go,tree.go] [--seed S]
"""
import json, os, random, re, shutil, subprocess, sys, tempfile, time
from concurrent.futures import ThreadPoolExecutor

VERIF = os.path.dirname(os.path.dirname(os.path.abspath(__file__)))
HARNESS = os.path.join(VERIF, "harness")
GO = "/root/go/pkg/mod/golang.org/toolchain@v0.0.1-go1.24.0.linux-amd64/bin/go"
ENV = dict(os.environ, GOFLAGS="-mod=mod", GOPROXY="off", GOTOOLCHAIN="local", GOSUMDB="off")

FILES = ["node.go", "node4.go", "tree.go", "keys.go", "collation.go", "trees.go", "node16_other.go"]

# tests run per mutant, cheapest / most general first: (name, extra args)
TESTS = [
    ("TestClosureC01", []), ("TestC11Closure", []), ("TestClosureC02", []), ("TestClosureC03", []), ("TestClosureC04", []),
    ("TestClosureC05", []), ("TestClosureC06", []), ("TestClosureC08", []), ("TestClosureC09", []), ("TestClosureC14", []), ("TestClosureC15", []),
    ("TestC10", ["-rapid.checks=300"]), ("TestC07", ["-rapid.checks=600"]),
    ("TestC01", ["-rapid.checks=1500", "-rapid.steps=40"]), ("TestC11", ["-rapid.checks=800", "-rapid.steps=40"]),
    ("TestC02", ["-rapid.checks=1200", "-rapid.steps=40"]), ("TestC03", ["-rapid.checks=1500", "-rapid.steps=40"]),
    ("TestC04", ["-rapid.checks=1500", "-rapid.steps=40"]), ("TestC05", ["-rapid.checks=1200", "-rapid.steps=40"]),
    ("TestC06", ["-rapid.checks=1200", "-rapid.steps=40"]), ("TestC08", ["-rapid.checks=1500", "-rapid.steps=40"]),
    ("TestC09", ["-rapid.checks=800", "-rapid.steps=40"]), ("TestC12", ["-rapid.checks=400", "-rapid.steps=60"]),
    ("TestC13", ["-rapid.checks=1200", "-rapid.steps=40"]), ("TestC14", ["-rapid.checks=1200", "-rapid.steps=40"]),
    ("TestC15", ["-rapid.checks=800", "-rapid.steps=40"]),
]


def candidates(fname, src):
    """Yields (line_no, description, new_line) for every first-order mutant of src."""
    lines = src.split("\n")
    infunc = False
    for i, line in enumerate(lines):
        s = line.strip()
        if s.startswith("func "):
            infunc = True
        if not infunc or not s or s.startswith("//") or s.startswith("panic(") or "shouldn't be possible" in s:
            continue
        if fname == "trees.go" and not (i < 420 or 1395 < i):  # alpha and compound instantiations only (the others are copies)
            continue
        code = line.split("//")[0]
        # relational operators
        for m in re.finditer(r"(?<![<>=!\-+*/&|^:])(<=|>=|==|!=|<|>)(?![<>=\-])", code):
            op = m.group(1)
            if op in ("<", ">") and ("[" in code[:m.start()] and "]" not in code[:m.start()]):
                continue  # generic brackets
            if re.search(r"\w\[[^\]]*$", code[:m.start()]) and op in ("<", ">"):
                continue
            for rep in {"<": ["<=", "=="], "<=": ["<"], ">": [">=", "=="], ">=": [">"], "==": ["!="], "!=": ["=="]}[op]:
                yield i, "rel %s -> %s" % (op, rep), line[:m.start()] + rep + line[m.end():]
        # arithmetic on small constants
        for m in re.finditer(r"([+\-]) (1|2)\b", code):
            sign, c = m.group(1), m.group(2)
            yield i, "arith %s %s -> %s %s" % (sign, c, "-" if sign == "+" else "+", c), line[:m.start()] + ("-" if sign == "+" else "+") + " " + c + line[m.end():]
            yield i, "arith %s %s -> %s 0" % (sign, c, sign), line[:m.start()] + sign + " 0" + line[m.end():]
        for m in re.finditer(r"(\+\+|--)$", code.rstrip()):
            rep = "--" if m.group(1) == "++" else "++"
            yield i, "incdec %s -> %s" % (m.group(1), rep), code.rstrip()[:-2] + rep
        # numeric literals that are thresholds
        for m in re.finditer(r"\b(3|12|37|255|256|0x80|0x8000|0x80000000|0x8000000000000000|10)\b", code):
            v = m.group(1)
            rep = {"3": "4", "12": "13", "37": "38", "255": "254", "256": "255", "0x80": "0x40", "0x8000": "0x4000",
                   "0x80000000": "0x40000000", "0x8000000000000000": "0x4000000000000000", "10": "9"}[v]
            yield i, "const %s -> %s" % (v, rep), line[:m.start()] + rep + line[m.end():]
        for m in re.finditer(r"\bmaxPrefixLen\b", code):
            yield i, "const maxPrefixLen -> maxPrefixLen-1", line[:m.start()] + "(maxPrefixLen-1)" + line[m.end():]
        # boolean connectives
        for m in re.finditer(r"&&|\|\|", code):
            rep = "||" if m.group(0) == "&&" else "&&"
            yield i, "bool %s -> %s" % (m.group(0), rep), line[:m.start()] + rep + line[m.end():]
        m = re.match(r"^(\s*)(if|for) (.+) \{$", code.rstrip())
        if m and m.group(2) == "if" and ";" not in m.group(3) and ":=" not in m.group(3):
            yield i, "negate if", "%sif !(%s) {" % (m.group(1), m.group(3))
        # break <-> continue
        if s == "break":
            yield i, "break -> continue", line.replace("break", "continue")
        if s == "continue":
            yield i, "continue -> break", line.replace("continue", "break")
        # statement deletion (simple statements only)
        if re.match(r"^(copy\(|clear\(|\w[\w.\[\]\(\)\*& ]*(\+\+|--)$|[\w.\[\]\*]+(\[[^\]]+\])? (=|\+=|-=|\|=|&=|\^=) .+|[\w.]+\.(clear|Put|addChild|deleteChild)\(.*\)$|\*ref = .+|shift\w+\(|setAtPos\()", s) and ":=" not in s:
            yield i, "delete statement", re.match(r"^\s*", line).group(0) + "_ = 0"


GOARCH_ALL = None


def build(root, tmp, goarch=None):
    goarch = goarch or GOARCH_ALL
    src = open(os.path.join(HARNESS, "go.mod")).read().replace("=> /repo", "=> " + root)
    mf = os.path.join(tmp, "go.mod")
    open(mf, "w").write(src)
    shutil.copy(os.path.join(HARNESS, "go.sum"), os.path.join(tmp, "go.sum"))
    out = os.path.join(tmp, "h.test")
    env = dict(ENV, GOARCH=goarch) if goarch else ENV
    p = subprocess.run([GO, "test", "-c", "-tags", "verif", "-vet=off", "-o", out, "-modfile=" + mf, "."], cwd=HARNESS, env=env, capture_output=True, text=True)
    return out if p.returncode == 0 and os.path.exists(out) else None


def run_mutant(m):
    idx, fname, lineno, desc, newline, orig = m
    root = tempfile.mkdtemp(prefix="mg-%d-" % idx, dir="/tmp")
    res = {"id": idx, "file": fname, "line": lineno + 1, "op": desc, "orig": orig.strip(), "mutant": newline.strip()}
    try:
        subprocess.run(["rsync", "-a", "--exclude", ".git", "--exclude", "bench", "--exclude", "testdata", "--exclude", "examples", "/repo/", root + "/"], check=True)
        p = os.path.join(root, fname)
        lines = open(p).read().split("\n")
        lines[lineno] = newline
        open(p, "w").write("\n".join(lines))
        binp = build(root, root, "386" if fname == "node16_other.go" else None)  # that file is only compiled for 32-bit targets
        if binp is None:
            res["status"] = "no-compile"
            return res
        t0 = time.time()
        for name, args in TESTS:
            wd = os.path.join(root, "wd")
            os.makedirs(wd, exist_ok=True)
            try:
                q = subprocess.run([binp, "-test.run", "^%s$" % name, "-rapid.nofailfile", "-rapid.seed=7", "-rapid.shrinktime=1s", "-test.timeout", "300s"] + args,
                                   cwd=wd, env=ENV, capture_output=True, text=True, timeout=400)
                rc, out = q.returncode, q.stdout + q.stderr
            except subprocess.TimeoutExpired:
                rc, out = -9, "timeout"
            if rc != 0:
                res["status"] = "killed"
                res["by"] = name
                mm = re.search(r"VERIF-FAIL property=(\S+) .*?msg=\"(.{0,200})", out)
                res["how"] = (mm.group(2) if mm else ("timeout" if rc == -9 else out[-200:]))
                res["wall_s"] = round(time.time() - t0, 1)
                return res
        res["status"] = "survived"
        res["wall_s"] = round(time.time() - t0, 1)
        return res
    finally:
        shutil.rmtree(root, ignore_errors=True)


def main():
    args = sys.argv[1:]
    global GOARCH_ALL
    j, limit, files, seed = 6, 0, FILES, 1
    while args:
        a = args.pop(0)
        if a == "-j":
            j = int(args.pop(0))
        elif a == "--limit":
            limit = int(args.pop(0))
        elif a == "--files":
            files = args.pop(0).split(",")
        elif a == "--seed":
            seed = int(args.pop(0))
        elif a == "--goarch":
            GOARCH_ALL = args.pop(0)
    muts = []
    for f in files:
        src = open(os.path.join("/repo", f)).read()
        lines = src.split("\n")
        seen = set()
        for (i, desc, newline) in candidates(f, src):
            if newline == lines[i] or (i, newline) in seen:
                continue
            seen.add((i, newline))
            muts.append((f, i, desc, newline, lines[i]))
    random.Random(seed).shuffle(muts)
    if limit:
        muts = muts[:limit]
    muts = [(k,) + m for k, m in enumerate(muts)]
    print("mutants:", len(muts), flush=True)
    out = os.environ.get("MUTGEN_OUT") or os.path.join(VERIF, "notes", "mutgen.jsonl")
    with ThreadPoolExecutor(max_workers=j) as ex, open(out, "a") as f:
        for r in ex.map(run_mutant, muts):
            f.write(json.dumps(r) + "\n")
            f.flush()
            print("%4d %-16s %-9s %-18s %s:%d %s | %s" % (r["id"], r["status"], r.get("by", ""), r["op"], r["file"], r["line"], r["orig"][:50], r["mutant"][:50]), flush=True)


if __name__ == "__main__":
    main()

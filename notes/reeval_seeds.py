#!/usr/bin/env python3
"""Re-runs the quick check of the target property against every seeded change in /verif/seeded
with the CURRENT harness (development aid). Results: notes/seed_matrix.json and a 'final' entry in
each meta.json."""
import json, os, shutil, subprocess, sys, tempfile, time, glob
from concurrent.futures import ThreadPoolExecutor
VERIF = os.path.dirname(os.path.dirname(os.path.abspath(__file__)))

# seeds whose defect belongs to another property than the one they were requested for
TARGET_OVERRIDE = {"t18_collation_bytes_key_aliased": "C13"}

def one(d):
    name = os.path.basename(d)
    meta = json.load(open(os.path.join(d, "meta.json")))
    pid = TARGET_OVERRIDE.get(name, meta["property"])
    scratch = tempfile.mkdtemp(prefix="reeval-", dir="/tmp")
    try:
        subprocess.run(["rsync", "-a", "--exclude", ".git", "--exclude", "bench", "/repo/", scratch + "/"], check=True)
        p = subprocess.run("patch -p1 -s --no-backup-if-mismatch < %s" % os.path.join(d, "patch.diff"), cwd=scratch, shell=True, capture_output=True, text=True)
        if p.returncode != 0:
            return name, {"error": "patch does not apply"}
        t0 = time.time()
        env = dict(os.environ, VERIF_REPO=scratch, VERIF_EVIDENCE_DIR=os.path.join(scratch, ".ev"), VERIF_REPLAY_DIR=os.path.join(scratch, ".rp"))
        q = subprocess.run([os.path.join(VERIF, "check"), pid, "quick"], cwd=VERIF, env=env, capture_output=True, text=True, timeout=3600)
        res = {"property": pid, "exit": q.returncode, "caught": "VIOLATION" in q.stdout, "wall_s": round(time.time() - t0, 1)}
        meta["final"] = res
        json.dump(meta, open(os.path.join(d, "meta.json"), "w"), indent=1)
        return name, res
    finally:
        shutil.rmtree(scratch, ignore_errors=True)

def main():
    dirs = sorted(glob.glob(os.path.join(VERIF, "seeded", "*")))
    j = int(sys.argv[1]) if len(sys.argv) > 1 else 4
    with ThreadPoolExecutor(max_workers=j) as ex:
        out = dict(ex.map(one, dirs))
    json.dump(out, open(os.path.join(VERIF, "notes", "seed_matrix.json"), "w"), indent=1)
    for k, v in out.items():
        print("%-50s %s" % (k, v))

if __name__ == "__main__":
    main()

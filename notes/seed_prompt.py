# Base brief for seeding sub-agents (development aid): python3 notes/seed_prompt.py <Cxx> reads /tmp/prop-<Cxx>.txt (id, title, statement, quantifier text) and prints the brief.
import sys
pid=sys.argv[1]
prop=open('/tmp/prop-%s.txt'%pid).read()
print(f"""You are helping evaluate a verification framework by seeding one realistic defect into a Go library.

Work ONLY inside the git worktree at /tmp/seed-{pid} (a checkout of the Go library github.com/Clement-Jean/go-art, a generic single-threaded Adaptive Radix Tree with six tree kinds: byte-string "alpha", unsigned, signed, float, collation, compound). Do NOT read, list or touch /verif or /repo, and do not create files outside /tmp/seed-{pid}.

Property that the library is supposed to satisfy:

{prop}
Your task: change the library source in the worktree (non-test .go/.s/.tmpl files; do NOT edit existing *_test.go files, testdata, or verif_hooks.go) so that this property is BROKEN, while
 (a) the package still compiles, both normally and with `-tags verif`, and
 (b) the existing test suite still passes:  cd /tmp/seed-{pid} && GOFLAGS=-mod=mod GOPROXY=off go test -vet=off -count=1 ./...   (the sandbox is offline; always set those two variables; `go` switches to the cached 1.24.0 toolchain by itself).
The change must look like a plausible maintainer mistake, refactoring slip or "optimisation" (no sabotage such as `if key == "magic"`), and it must need something SPECIFIC to manifest — for example a multi-step sequence of operations, an unusual input, a particular tree shape (a certain node size class 4/16/48/256, a compressed path longer than the 10 inline bytes, a deletion that triggers a merge or a shrink, a re-insert after delete), a particular key type, or two cooperating sites that each look fine alone. It must NOT be something that ordinary use (a handful of inserts and lookups) exposes at once.

Background you need: trees.go is GENERATED from cmd/go-art/tree.tmpl (to regenerate: `cd /tmp/seed-{pid} && rm trees.go && GOFLAGS=-mod=mod GOPROXY=off go run cmd/go-art/main.go && gofmt -w trees.go`). If you change generated code, change the template and regenerate so that both stay in sync (unless the property itself is about that sync). collation.go is a hand-written sixth copy of the same algorithm.
Two limitations are already known and recorded; do NOT build your change on them: (1) storing two byte-string keys where one equals the other followed by a 0x00 byte (e.g. "a" and "a\\x00..."), (2) storing, in a collation tree, two different strings whose collation sort keys are identical (e.g. NFC vs NFD forms).

Deliver, inside /tmp/seed-{pid}:
 1. the source change itself (leave it applied in the working tree, uncommitted; keep it small — ideally under ~25 changed lines);
 2. a new file seed_demo_test.go with a test `TestSeedDemo` that FAILS with your change and PASSES on the original code. Verify both: save your change with `git diff > my.patch` and undo it with `git apply -R my.patch` (do NOT use git stash: it is shared between worktrees), run `GOFLAGS=-mod=mod GOPROXY=off go test -vet=off -count=1 -run TestSeedDemo .`, then `git apply my.patch`, and run it again;
 3. a file SEED_NOTES.md: which files/functions you changed, why it breaks the property, exactly what is needed for it to manifest, and the commands you ran with their outcomes.
Make sure the full existing suite (command in (b)) passes WITH your change applied — note that it will also run your TestSeedDemo, so when you run the full suite for this check add `-skip TestSeedDemo`.

Finish with a short report: changed files, what triggers the defect, confirmation that the existing suite passes with the change, and that the demo fails with / passes without it.""")